#!/usr/bin/env python3
"""Regenerates MANIFEST.json from checks.json (single source of truth for per-check metadata)."""
import json, os, subprocess
ROOT = os.path.dirname(os.path.abspath(__file__))
conf = json.load(open(os.path.join(ROOT, "checks.json")))
props = [json.loads(l) for l in open(os.path.join(ROOT, "properties.jsonl"))]
hooks = subprocess.run(["git", "-C", "/repo", "log", "--format=%H %s"], stdout=subprocess.PIPE, text=True).stdout.splitlines()
hook_commits = [l.split()[0] for l in hooks if " verif-hooks:" in l]
def technique(c):
    t = c["technique"]
    # strip hand-written lane remarks, then state the lanes actually configured
    t = t.split("; valgrind/ASan lanes")[0].split("; thorough tier adds")[0]
    lanes = c.get("lanes", [])
    if lanes:
        names = {"valgrind": "valgrind memcheck", "asan": "AddressSanitizer build", "miri": "Miri over /verif/miri-shim"}
        kinds = []
        for l in lanes:
            n = names.get(l["kind"], l["kind"])
            if n not in kinds:
                kinds.append(n)
        t += "; thorough tier adds sanitizer lanes running the same monitors at reduced scale (" + ", ".join(kinds) + "), a sanitizer report counts as a violation"
    return t


checks, na = [], []
for p in props:
    pid = p["id"]
    c = conf["checks"].get(pid)
    if not c or c.get("disabled"):
        na.append({"property_id": pid, "reason": (c or {}).get("disabled", conf.get("not_built_reason", "check not built yet"))})
        continue
    checks.append({
        "property_id": pid,
        "quick_cmd": "./check %s --tier quick" % pid,
        "thorough_cmd": "./check %s --tier thorough" % pid,
        "evidence_file": "/verif/evidence/%s.json" % pid,
        "replay_cmd_template": "./check %s --replay {path}" % pid,
        "engine": "agv",
        "level_claimed": {"category": "exploration", "text": c["level_text"], "design_ref": "DESIGN.md section 6 (%s)" % pid},
        "level_note": c["level_note"],
        "technique": technique(c),
    })
m = {
    "version": 1,
    "setup_cmd": "./check --build-only",
    "hooks": {
        "guard": "cargo feature verif-hooks",
        "enable": "the harness crate /verif/harness depends on alpenglow = { path = \"/repo\", features = [\"verif-hooks\"] }; every check rebuilds it from /repo's working tree (cargo build --profile verif --offline)",
        "baseline_off_cmd": "cd /repo && cargo nextest run --workspace --no-fail-fast --tool-config-file pb:/w/lib/nextest.toml --profile pb --test-threads 8 --offline",
        "source_commits": hook_commits,
        "add_only": True,
    },
    "engines": [{
        "name": "agv", "path": "/verif/harness",
        "serves_properties": [c["property_id"] for c in checks],
        "kind_free_text": "Rust harness crate driving the real components (path dependency on /repo) under seeded hostile workloads, with reference-model monitors, wire-level mutation oracles, whole-node executions over an in-memory network with virtual time, and valgrind/ASan/Miri lanes in the thorough tier; driver ./check shards over 16 processes and merges the observed events into evidence",
    }],
    "checks": checks,
    "not_applicable": na,
    "notes": "Runtime monitoring only: every verdict is 'held on the executions observed'. Exit 2 = inconclusive (never a VIOLATION line). Genuine defects repaired by fix: commits or listed in known_findings.jsonl; see DESIGN.md sections 12-14 (as built, findings, false alarms, seeded changes).",
}
json.dump(m, open(os.path.join(ROOT, "MANIFEST.json"), "w"), indent=1)
print("claimed:", [c["property_id"] for c in checks], "not claimed:", [n["property_id"] for n in na])
