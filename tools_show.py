#!/usr/bin/env python3
"""Debug helper: print the operations of a replay witness that touch given slots."""
import json,sys
w=json.load(open(sys.argv[1]))
slots=set(int(x) for x in sys.argv[2:])
print(w['signature']); print(w['detail'][:300])
h=w['witness']['history_tail']
for i,o in enumerate(h):
    s=json.dumps(o)
    sl=None
    if isinstance(o,dict):
        if 'slot' in o: sl=o['slot']
        if 'add_block' in o: sl=int(o['add_block'].split(':')[0])
    if not slots or sl in slots or (isinstance(o,dict) and 'add_block' in o and int(o['parent'].split(':')[0]) in slots):
        if isinstance(o,dict) and 'vote' in o and o['vote'] in ('skip','skip-fallback') and len(slots)>0: continue
        print(i,s[:160])
