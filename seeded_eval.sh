#!/bin/bash
# usage: seeded_eval.sh <scratch-id-dir> <check ids...>
# Confirms a seeded change in its scratch worktree (demo passes without / fails with the patch, suite
# passes with it) and then runs the given checks against /repo with the patch applied (undone afterwards).
set -u
D=$1; shift
OUT=$D/_out
cd $D || exit 2
git checkout -q -- . ; git clean -fdq -e _out -e target
export CARGO_NET_OFFLINE=true CARGO_TARGET_DIR=$D/target
TEST=$(grep -E '^\+.*fn [a-z0-9_]+\(' $OUT/demo.diff | grep -B0 -E 'fn ' | sed -E 's/.*fn ([a-z0-9_]+)\(.*/\1/' | head -40 | tr '\n' ' ')
# the demo test is the function following a #[test] / #[tokio::test] attribute
TEST=$(awk '/^\+.*#\[(tokio::)?test/ {f=1; next} f && /fn [a-z0-9_]+/ {match($0,/fn [a-z0-9_]+/); print substr($0,RSTART+3,RLENGTH-3); f=0}' $OUT/demo.diff | head -1)
echo "demo test: $TEST"
git apply $OUT/demo.diff || { echo "DEMO-APPLY-FAILED"; exit 2; }
R1=$(cargo nextest run --offline --no-fail-fast $TEST 2>&1 | grep -E "Summary|tests run" | tail -1)
echo "demo without patch: $R1"
git apply $OUT/patch.diff || { echo "PATCH-APPLY-FAILED"; exit 2; }
R2=$(cargo nextest run --offline --no-fail-fast $TEST 2>&1 | grep -E "Summary|tests run" | tail -1)
echo "demo with patch:    $R2"
git checkout -q -- . ; git clean -fdq -e _out -e target
git apply $OUT/patch.diff
R3=$(cargo nextest run --workspace --offline --no-fail-fast 2>&1 | grep -E "Summary" | tail -1)
echo "suite with patch:   $R3"
git checkout -q -- . ; git clean -fdq -e _out -e target
# now the checks, against /repo itself
cd /repo && git diff --quiet || { echo "/repo not clean"; exit 2; }
git -C /repo apply $OUT/patch.diff || { echo "PATCH-APPLY-ON-REPO-FAILED"; exit 2; }
cd /verif
for c in "$@"; do
  T0=$(date +%s)
  ./check $c --tier quick > /tmp/seeded_$c.log 2>&1; RC=$?
  echo "check $c exit=$RC ($(( $(date +%s) - T0 ))s): $(grep -m3 'signature:' /tmp/seeded_$c.log | sed 's/  signature: //' | tr '\n' '|')"
done
git -C /repo checkout -- .
git -C /repo status --short | head -3
# the runs above were against a patched tree: their evidence files are not evidence of /repo; put the committed ones back
git -C /verif checkout -- evidence/
