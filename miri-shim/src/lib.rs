//! Miri shim: re-hosts pure files of /repo under the module paths they expect.
#![allow(dead_code, unused_imports, unreachable_pub)]

pub mod crypto {
    #[path = "/repo/src/crypto/hash.rs"]
    pub mod hash;
    pub use self::hash::{Hash, hash};
}

pub mod execution {
    #[path = "/repo/src/execution/state.rs"]
    pub mod state;
    #[path = "/repo/src/execution/commitment.rs"]
    pub mod commitment;
}

pub mod types {
    #[path = "/repo/src/types/stake.rs"]
    pub mod stake;
    #[path = "/repo/src/types/slice_index.rs"]
    pub mod slice_index;
    pub use self::stake::Stake;
}
pub use types::Stake;

pub mod shredder {
    pub const TOTAL_SHREDS: usize = 64;
    #[path = "/repo/src/shredder/shred_index.rs"]
    pub mod shred_index;
}

pub mod disseminator {
    pub mod turbine {
        #[path = "/repo/src/disseminator/turbine/weighted_shuffle.rs"]
        pub mod weighted_shuffle;
    }
}

/// Workload over the weighted shuffle (its `get_unchecked` tree indexing), callable from tests.
pub fn shuffle_workload(seed: u64) -> usize {
    use rand::SeedableRng;
    use rand::rngs::StdRng;
    let mut total = 0;
    for (k, n) in [1usize, 2, 3, 15, 16, 17, 33, 100, 257].into_iter().enumerate() {
        let weights: Vec<Stake> = (0..n).map(|i| Stake::new(if (i + k + seed as usize) % 5 == 0 { 0 } else { ((i * 7 + k) % 13 + 1) as u64 })).collect();
        let mut ws = disseminator::turbine::weighted_shuffle::WeightedShuffle::new(weights.iter());
        let mut rng = StdRng::seed_from_u64(seed ^ n as u64);
        let order: Vec<usize> = ws.shuffle(&mut rng).collect();
        let mut sorted = order.clone();
        sorted.sort_unstable();
        assert_eq!(sorted, (0..n).collect::<Vec<_>>(), "shuffle must be a permutation");
        // zero-weight entries come last
        let first_zero = order.iter().position(|i| weights[*i] == Stake::new(0));
        if let Some(p) = first_zero {
            assert!(order[p..].iter().all(|i| weights[*i] == Stake::new(0)), "zero weights only at the end");
        }
        total += n;
    }
    total
}
