//! Small model-checked workloads for Miri (kept tiny: Miri is ~10^4 times slower than native).
use std::collections::BTreeMap;

use agv_miri_shim::execution::commitment::LtHash;
use agv_miri_shim::execution::state::State;
use agv_miri_shim::shredder::shred_index::ShredIndex;
use agv_miri_shim::types::slice_index::SliceIndex;

fn rng(seed: u64) -> impl FnMut() -> u64 {
    let mut s = seed.wrapping_mul(0x9E3779B97F4A7C15) | 1;
    move || {
        s ^= s << 13;
        s ^= s >> 7;
        s ^= s << 17;
        s
    }
}

fn seed() -> u64 {
    std::env::var("AGV_MIRI_SEED").ok().and_then(|s| s.parse().ok()).unwrap_or(1)
}

#[test]
fn state_forks_against_btreemap() {
    let mut r = rng(seed());
    // clustered keys: shared prefixes of many bits
    let mut keys: Vec<[u8; 32]> = vec![[0u8; 32]];
    for i in 0..16 {
        let mut k = keys[(r() as usize) % keys.len()];
        let p = (r() % 256) as usize;
        k[p / 8] ^= 0x80 >> (p % 8);
        k[31] ^= i as u8;
        if !keys.contains(&k) {
            keys.push(k);
        }
    }
    let mut forks: Vec<(State, BTreeMap<[u8; 32], Vec<u8>>)> = vec![(State::new(), BTreeMap::new())];
    for _ in 0..90 {
        let f = (r() as usize) % forks.len();
        let k = keys[(r() as usize) % keys.len()];
        match r() % 10 {
            0..=4 => {
                let v = vec![(r() % 251) as u8; (r() % 5) as usize];
                assert_eq!(forks[f].0.insert(k, v.clone()), forks[f].1.insert(k, v));
            }
            5..=7 => {
                assert_eq!(forks[f].0.remove(&k), forks[f].1.remove(&k));
            }
            8 if forks.len() < 4 => {
                let c = (forks[f].0.clone(), forks[f].1.clone());
                forks.push(c);
            }
            _ if forks.len() > 1 => {
                forks.remove(f);
            }
            _ => {}
        }
        for (s, m) in &forks {
            assert_eq!(s.len(), m.len());
            let it: Vec<_> = s.iter().map(|(k, v)| (*k, v.to_vec())).collect();
            let mi: Vec<_> = m.iter().map(|(k, v)| (*k, v.clone())).collect();
            assert_eq!(it, mi);
        }
    }
    // equal contents built in another order compare equal
    let (s, m) = &forks[0];
    let mut rebuilt = State::new();
    for (k, v) in m.iter().rev() {
        rebuilt.insert(*k, v.clone());
    }
    assert!(rebuilt == *s);
}

#[test]
fn lthash_incremental_equals_recomputed() {
    let mut lt = LtHash::identity();
    let (a, b, c) = ([1u8; 32], [2u8; 32], [3u8; 32]);
    lt.observe(&a, None, Some(&[1]));
    lt.observe(&b, None, Some(&[2, 2]));
    lt.observe(&a, Some(&[1]), Some(&[9]));
    lt.observe(&c, None, Some(&[]));
    lt.observe(&b, Some(&[2, 2]), None);
    let mut rc = LtHash::identity();
    rc.add_entry(&c, &[]);
    rc.add_entry(&a, &[9]);
    assert!(lt == rc);
    assert!(lt.digest() == rc.digest());
}

#[test]
fn index_decoders_on_hostile_bytes() {
    let mut r = rng(seed() ^ 0xabc);
    for _ in 0..60 {
        let v: u64 = match r() % 6 {
            0 => r() % 64,
            1 => 63,
            2 => 64,
            3 => 1023,
            4 => 1024,
            _ => r(),
        };
        let b = v.to_le_bytes();
        assert_eq!(wincode::deserialize::<SliceIndex>(&b).is_ok(), v < 1024);
        assert_eq!(wincode::deserialize::<ShredIndex>(&b).is_ok(), v < 64);
        let cut = (r() % 8) as usize;
        assert!(wincode::deserialize::<SliceIndex>(&b[..cut]).is_err());
        assert!(wincode::deserialize::<ShredIndex>(&b[..cut]).is_err());
    }
}
