//! Weighted shuffle (unsafe get_unchecked indexing) under Miri.
#[test]
fn weighted_shuffle_is_a_permutation_with_zeros_last() {
    let seed: u64 = std::env::var("AGV_MIRI_SEED").ok().and_then(|s| s.parse().ok()).unwrap_or(1);
    assert!(agv_miri_shim::shuffle_workload(seed) > 0);
}
