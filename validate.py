#!/usr/bin/env python3
"""Validates MANIFEST.json and evidence/*.json against the given schemas (uses the tooling venv)."""
import json, glob, sys
import jsonschema
ok = True
ms = json.load(open('/root/.vp/MANIFEST.schema.json'))
es = json.load(open('/root/.vp/EVIDENCE.schema.json'))
try:
    jsonschema.validate(json.load(open('/verif/MANIFEST.json')), ms); print('MANIFEST valid')
except Exception as e:
    ok = False; print('MANIFEST INVALID', e)
for f in sorted(glob.glob('/verif/evidence/*.json')):
    try:
        jsonschema.validate(json.load(open(f)), es); print(f, 'valid')
    except Exception as e:
        ok = False; print(f, 'INVALID', str(e)[:300])
sys.exit(0 if ok else 1)
