//! C09 Only authentic votes and sufficiently backed certificates are admitted.
//!
//! Ground truth: the harness signs every ingredient itself, so for every (mutated) message
//! it can decide from the canonical wire parts whether the message is authentic.

use std::collections::HashMap;

use alpenglow::consensus::{ValidatedCert, ValidatedVote};
use rand::prelude::*;
use serde_json::json;

use crate::common::{Epoch, SRng, gen_stakes, hex, make_epoch, pick_family};
use crate::evidence::{Ctx, guarded};
use crate::wire::*;

pub struct SigCache<'a> {
    pub ep: &'a Epoch,
    cache: HashMap<(usize, VK, u64, Option<[u8; 32]>), [u8; SIG_LEN]>,
}

impl<'a> SigCache<'a> {
    pub fn new(ep: &'a Epoch) -> Self {
        Self { ep, cache: HashMap::new() }
    }
    pub fn sig(&mut self, signer: usize, kind: VK, slot: u64, hash: Option<&[u8; 32]>) -> [u8; SIG_LEN] {
        let h = if kind.has_hash() { hash.copied() } else { None };
        *self.cache.entry((signer, kind, slot, h)).or_insert_with(|| {
            let s = individual_sig(self.ep, signer, kind, slot, h.as_ref());
            let b = ser(&s);
            let mut o = [0u8; SIG_LEN];
            o.copy_from_slice(&b);
            o
        })
    }
    /// Genuine aggregate of the given signers over the payload, as canonical bytes.
    pub fn aggregate(&mut self, signers: &[usize], kind: VK, slot: u64, hash: Option<&[u8; 32]>) -> Option<[u8; SIG_LEN]> {
        if signers.is_empty() {
            return None;
        }
        let sigs: Vec<_> = signers
            .iter()
            .map(|i| {
                let b = self.sig(*i, kind, slot, hash);
                (*i, alpenglow::network::deserialize::<alpenglow::crypto::IndividualSignature>(&b).expect("own signature decodes"))
            })
            .collect();
        Some(AggParts::aggregate(&sigs, self.ep.n()).sig)
    }
}

/// Ground truth for a vote given its canonical parts.
fn vote_authentic(sc: &mut SigCache, p: &VoteParts) -> bool {
    if p.signer >= sc.ep.n() as u64 {
        return false;
    }
    sc.sig(p.signer as usize, p.kind, p.slot, p.hash.as_ref()) == p.sig
}

/// Ground truth for a certificate given its canonical parts.
fn cert_authentic(sc: &mut SigCache, p: &CertParts) -> (bool, &'static str) {
    let n = sc.ep.n();
    let (k1, k2) = p.kind.halves();
    let mut union: Vec<usize> = Vec::new();
    let halves: Vec<(VK, &AggParts)> = [(Some(k1), p.a.as_ref()), (k2, p.b.as_ref())].into_iter().filter_map(|(k, a)| Some((k?, a?))).collect();
    if halves.is_empty() {
        return (false, "no-signature");
    }
    for (vk, a) in halves {
        if a.num_bits != n as u64 {
            return (false, "bitmask-length");
        }
        let s = a.signers();
        match sc.aggregate(&s, vk, p.slot, p.hash.as_ref()) {
            Some(g) if g == a.sig => {}
            _ => return (false, "aggregate-mismatch"),
        }
        union.extend(s);
    }
    union.sort_unstable();
    union.dedup();
    let stake = sc.ep.stake_of(union);
    if !sc.ep.meets(stake, p.kind.threshold_fifths(), 5) {
        return (false, "below-threshold");
    }
    (true, "authentic")
}

fn check_vote_bytes(ctx: &mut Ctx, sc: &mut SigCache, class: &str, bytes: &[u8], must_accept: bool, origin: &VoteParts) {
    ctx.eval();
    let w = |extra: serde_json::Value| json!({"object": "vote", "mutation": class, "n": sc.ep.n(), "stakes": sc.ep.stakes, "origin": {"kind": origin.kind.name(), "slot": origin.slot, "signer": origin.signer}, "bytes": hex(bytes), "extra": extra});
    let r = guarded(|| de_vote(bytes).map(|v| (VoteParts::of(&v), ValidatedVote::try_new(v, &sc.ep.info).is_ok())));
    match r {
        Err(p) => ctx.violation(format!("C09 vote validation {}", p.sig()), format!("{} at {}:{} ({class})", p.msg, p.file, p.line), w(json!(null))),
        Ok(None) => {
            ctx.count("vote:undecodable");
            ctx.distinct(format!("vote:{}:{class}:undecodable", origin.kind.name()));
            if must_accept {
                ctx.violation(format!("C09 authentic vote does not decode mutation={class}"), "", w(json!(null)));
            }
        }
        Ok(Some((canon, accepted))) => {
            let truth = vote_authentic(sc, &canon);
            ctx.distinct(format!("vote:{}:{class}:{}", origin.kind.name(), if accepted { "accepted" } else { "rejected" }));
            ctx.count(if accepted { "vote:accepted" } else { "vote:rejected" });
            if accepted != truth {
                ctx.violation(
                    format!("C09 vote {} although it is {} mutation={class}", if accepted { "admitted" } else { "rejected" }, if truth { "authentic" } else { "not authentic" }),
                    format!("kind {} slot {} signer {}", canon.kind.name(), canon.slot, canon.signer),
                    w(json!({"canonical": {"kind": canon.kind.name(), "slot": canon.slot, "signer": canon.signer}})),
                );
            } else if must_accept && !accepted {
                ctx.violation(format!("C09 authentic vote rejected mutation={class}"), "", w(json!(null)));
            }
        }
    }
}

fn check_cert_bytes(ctx: &mut Ctx, sc: &mut SigCache, class: &str, bytes: &[u8], must_accept: bool, origin: &CertParts) {
    ctx.eval();
    let w = |extra: serde_json::Value| {
        json!({"object": "cert", "mutation": class, "n": sc.ep.n(), "stakes": sc.ep.stakes, "family": sc.ep.family,
               "origin": {"kind": origin.kind.name(), "slot": origin.slot, "signers_a": origin.a.as_ref().map(|a| a.signers()), "signers_b": origin.b.as_ref().map(|a| a.signers())},
               "bytes": hex(bytes), "extra": extra})
    };
    let r = guarded(|| de_cert(bytes).map(|c| (CertParts::of(&c), ValidatedCert::try_new(c, &sc.ep.info).is_ok())));
    match r {
        Err(p) => ctx.violation(format!("C09 cert validation {}", p.sig()), format!("{} at {}:{} ({class})", p.msg, p.file, p.line), w(json!(null))),
        Ok(None) => {
            ctx.count("cert:undecodable");
            ctx.distinct(format!("cert:{}:{class}:undecodable", origin.kind.name()));
            if must_accept {
                ctx.violation(format!("C09 authentic certificate does not decode mutation={class}"), "", w(json!(null)));
            }
        }
        Ok(Some((canon, accepted))) => {
            let (truth, why) = cert_authentic(sc, &canon);
            ctx.distinct(format!("cert:{}:{class}:{}:{why}", origin.kind.name(), if accepted { "accepted" } else { "rejected" }));
            ctx.count(if accepted { "cert:accepted" } else { "cert:rejected" });
            ctx.count(&format!("cert-truth:{why}"));
            if accepted != truth {
                ctx.violation(
                    format!("C09 certificate {} although ground truth is {why} mutation={class}", if accepted { "admitted" } else { "rejected" }),
                    format!("kind {} slot {} signers {:?}", canon.kind.name(), canon.slot, canon.signers()),
                    w(json!({"canonical_kind": canon.kind.name(), "canonical_signers": canon.signers(), "declared_stake": canon.stake})),
                );
            } else if must_accept && !accepted {
                ctx.violation(format!("C09 authentic certificate rejected mutation={class}"), "", w(json!(null)));
            }
        }
    }
}

fn other(rng: &mut SRng, n: usize, not: usize) -> usize {
    if n == 1 {
        return 0;
    }
    loop {
        let x = rng.random_range(0..n);
        if x != not {
            return x;
        }
    }
}

fn vote_mutations(ctx: &mut Ctx, rng: &mut SRng, sc: &mut SigCache) {
    let n = sc.ep.n();
    let slot = *[0u64, 1, 5, 1000, u64::MAX].choose(rng).unwrap();
    let h = hash32(&crate::common::bh(rng.random_range(0..4)));
    let h2 = hash32(&crate::common::bh(99));
    for kind in ALL_VK {
        let signer = rng.random_range(0..n);
        let base = VoteParts { kind, slot, hash: if kind.has_hash() { Some(h) } else { None }, sig: sc.sig(signer, kind, slot, Some(&h)), signer: signer as u64 };
        check_vote_bytes(ctx, sc, "none", &base.encode(), true, &base);
        // kind tag: every other kind (keeping / adding / dropping the hash as the layout demands)
        for k2 in ALL_VK {
            if k2 == kind {
                continue;
            }
            let mut m = base.clone();
            m.kind = k2;
            if k2.has_hash() && m.hash.is_none() {
                m.hash = Some(h);
            }
            if !k2.has_hash() {
                m.hash = None;
            }
            check_vote_bytes(ctx, sc, "kind-retag", &m.encode(), false, &base);
        }
        let mut m = base.clone();
        m.slot = slot.wrapping_add(1);
        check_vote_bytes(ctx, sc, "slot", &m.encode(), false, &base);
        if kind.has_hash() {
            let mut m = base.clone();
            m.hash = Some(h2);
            check_vote_bytes(ctx, sc, "hash", &m.encode(), false, &base);
            let mut m = base.clone();
            m.hash.as_mut().unwrap()[rng.random_range(0..32)] ^= 1 << rng.random_range(0..8);
            check_vote_bytes(ctx, sc, "hash-bitflip", &m.encode(), false, &base);
        }
        // signer index
        for (cls, s) in [("signer-other-in-range", other(rng, n, signer) as u64), ("signer-n", n as u64), ("signer-n+1", n as u64 + 1), ("signer-2^32", 1u64 << 32), ("signer-2^32+i", (1u64 << 32) + signer as u64), ("signer-u64max", u64::MAX)] {
            if s == signer as u64 {
                continue;
            }
            let mut m = base.clone();
            m.signer = s;
            check_vote_bytes(ctx, sc, cls, &m.encode(), false, &base);
        }
        // signature bytes
        let mut m = base.clone();
        m.sig[rng.random_range(0..SIG_LEN)] ^= 1 << rng.random_range(0..8);
        check_vote_bytes(ctx, sc, "sig-bitflip", &m.encode(), false, &base);
        if n > 1 {
            let o = other(rng, n, signer);
            let mut m = base.clone();
            m.sig = sc.sig(o, kind, slot, Some(&h));
            check_vote_bytes(ctx, sc, "sig-of-another-validator", &m.encode(), false, &base);
            // ... and with the signer field pointing at that validator it is authentic again
            m.signer = o as u64;
            check_vote_bytes(ctx, sc, "sig-and-signer-of-another-validator", &m.encode(), true, &base);
        }
        for k2 in ALL_VK {
            if k2 != kind {
                let mut m = base.clone();
                m.sig = sc.sig(signer, k2, slot, Some(&h));
                check_vote_bytes(ctx, sc, "sig-of-another-kind-same-validator", &m.encode(), false, &base);
            }
        }
        let mut m = base.clone();
        m.sig = sc.sig(signer, kind, slot.wrapping_add(7), Some(&h));
        check_vote_bytes(ctx, sc, "sig-of-another-slot", &m.encode(), false, &base);
        // identity (point at infinity) encoding and an arbitrary non-curve string
        let mut m = base.clone();
        m.sig = [0u8; SIG_LEN];
        m.sig[0] = 0x40;
        check_vote_bytes(ctx, sc, "sig-identity-point", &m.encode(), false, &base);
        let mut m = base.clone();
        rng.fill_bytes(&mut m.sig);
        m.sig[0] &= 0x1f;
        check_vote_bytes(ctx, sc, "sig-random-bytes", &m.encode(), false, &base);
        // the genuine signature plus a curve point outside the prime-order subgroup (pairs trivially)
        if let Some(alt) = crate::wire::add_cofactor_point(&base.sig, rng.random()) {
            let mut m = base.clone();
            m.sig = alt;
            check_vote_bytes(ctx, sc, "sig-plus-cofactor-point", &m.encode(), false, &base);
        }
        // combined
        let mut m = base.clone();
        m.slot ^= 1;
        m.signer = other(rng, n, signer) as u64;
        check_vote_bytes(ctx, sc, "slot+signer", &m.encode(), false, &base);
    }
}

/// Signer subsets around the threshold of `kind`: exactly on, just below, just above, random.
fn subsets_around(rng: &mut SRng, ep: &Epoch, fifths: u128) -> Vec<(String, Vec<usize>)> {
    let n = ep.n();
    let mut out: Vec<(String, Vec<usize>)> = Vec::new();
    let total = ep.total();
    if n <= 12 {
        // enumerate all subsets, keep the closest below / exactly on / closest above
        let mut best_below: Option<(u128, u32)> = None;
        let mut on: Option<u32> = None;
        let mut best_above: Option<(u128, u32)> = None;
        let start = rng.random_range(0..(1u32 << n));
        for j in 0..(1u32 << n) {
            let m = (j + start) % (1u32 << n);
            if m == 0 {
                continue;
            }
            let st: u128 = (0..n).filter(|i| m >> i & 1 == 1).map(|i| ep.stakes[i] as u128).sum();
            let lhs = st * 5;
            let rhs = fifths * total;
            if lhs == rhs {
                on.get_or_insert(m);
            } else if lhs < rhs {
                if best_below.is_none_or(|(b, _)| st > b) {
                    best_below = Some((st, m));
                }
            } else if best_above.is_none_or(|(b, _)| st < b) {
                best_above = Some((st, m));
            }
        }
        let bits = |m: u32| (0..n).filter(|i| m >> i & 1 == 1).collect::<Vec<_>>();
        if let Some((_, m)) = best_below {
            out.push(("closest-below-threshold".into(), bits(m)));
        }
        if let Some(m) = on {
            out.push(("exactly-on-threshold".into(), bits(m)));
        }
        if let Some((_, m)) = best_above {
            out.push(("closest-above-threshold".into(), bits(m)));
        }
    }
    let mut ids: Vec<usize> = (0..n).collect();
    ids.shuffle(rng);
    let k = rng.random_range(1..=n);
    let mut r = ids[..k].to_vec();
    r.sort_unstable();
    out.push(("random-subset".into(), r));
    out.push(("all".into(), (0..n).collect()));
    out
}

fn cert_mutations(ctx: &mut Ctx, rng: &mut SRng, sc: &mut SigCache) {
    let ep = sc.ep;
    let n = ep.n();
    let slot = *[0u64, 3, 77, u64::MAX - 1].choose(rng).unwrap();
    let h = hash32(&crate::common::bh(rng.random_range(0..4)));
    let h2 = hash32(&crate::common::bh(98));
    let total = ep.total().min(u64::MAX as u128) as u64;
    for kind in ALL_CK {
        let (k1, k2) = kind.halves();
        for (scls, set) in subsets_around(rng, ep, kind.threshold_fifths()) {
            // split the signer set over the halves for mixed certificates
            let (fa, fb): (Vec<usize>, Vec<usize>) = if kind.mixed() {
                match rng.random_range(0..4) {
                    0 => (set.clone(), vec![]),
                    1 => (vec![], set.clone()),
                    _ => set.iter().partition(|_| rng.random_bool(0.5)),
                }
            } else {
                (set.clone(), vec![])
            };
            let base = build_cert(ep, kind, slot, Some(&h), &fa, &fb);
            let cls = |m: &str| format!("{m}[{scls}]");
            if base.a.is_none() && !kind.mixed() {
                continue;
            }
            let enc = base.encode();
            // unaltered: authentic iff the subset meets the threshold (the oracle decides)
            check_cert_bytes(ctx, sc, &cls("none"), &enc, false, &base);
            // declared stake is irrelevant
            for st in [0u64, total, u64::MAX, 1] {
                let mut m = base.clone();
                m.stake = st;
                check_cert_bytes(ctx, sc, &cls("declared-stake"), &m.encode(), false, &base);
            }
            // slot / hash
            let mut m = base.clone();
            m.slot = slot.wrapping_add(1);
            check_cert_bytes(ctx, sc, &cls("slot"), &m.encode(), false, &base);
            if kind.has_hash() {
                let mut m = base.clone();
                m.hash = Some(h2);
                check_cert_bytes(ctx, sc, &cls("hash"), &m.encode(), false, &base);
            }
            // kind retag where the layout allows it
            for k in ALL_CK {
                if k != kind && k.mixed() == kind.mixed() {
                    let mut m = base.clone();
                    m.kind = k;
                    if k.has_hash() && m.hash.is_none() {
                        m.hash = Some(h);
                    }
                    if !k.has_hash() {
                        m.hash = None;
                    }
                    check_cert_bytes(ctx, sc, &cls(&format!("kind-retag-{}-to-{}", kind.name(), k.name())), &m.encode(), false, &base);
                }
            }
            // signer set edits: extra bit, missing bit
            for half in 0..2 {
                fn pick_half(m: &mut CertParts, half: usize) -> Option<&mut AggParts> {
                    if half == 0 { m.a.as_mut() } else { m.b.as_mut() }
                }

                let mut m = base.clone();
                let Some(a) = pick_half(&mut m, half) else { continue };
                let signers = a.signers();
                if let Some(extra) = (0..n).find(|i| !signers.contains(i)) {
                    a.set_bit(extra, true);
                    check_cert_bytes(ctx, sc, &cls("bitmask-extra-signer"), &m.encode(), false, &base);
                }
                let mut m = base.clone();
                let a = pick_half(&mut m, half).unwrap();
                if signers.len() > 1 {
                    a.set_bit(signers[rng.random_range(0..signers.len())], false);
                    check_cert_bytes(ctx, sc, &cls("bitmask-missing-signer"), &m.encode(), false, &base);
                }
                // replace a signer by a non-signer with larger stake (declared stake kept)
                let mut m = base.clone();
                let a = pick_half(&mut m, half).unwrap();
                if let (Some(&out), Some(inn)) = (signers.first(), (0..n).find(|i| !signers.contains(i))) {
                    a.set_bit(out, false);
                    a.set_bit(inn, true);
                    check_cert_bytes(ctx, sc, &cls("bitmask-signer-swapped"), &m.encode(), false, &base);
                }
                // bitmask lengths
                for (lc, nb) in [("shorter", n.saturating_sub(1) as u64), ("longer", n as u64 + 1), ("2048", 2048), ("2049", 2049), ("zero", 0), ("u64max", u64::MAX)] {
                    let mut m = base.clone();
                    let a = pick_half(&mut m, half).unwrap();
                    a.num_bits = nb;
                    while (a.words.len() as u64) * 64 < nb.min(4096) {
                        a.words.push(0);
                    }
                    check_cert_bytes(ctx, sc, &cls(&format!("bitmask-length-{lc}")), &m.encode(), false, &base);
                }
                // dead bits beyond num_bits and a spare zero word do not change the signer set
                let mut m = base.clone();
                let a = pick_half(&mut m, half).unwrap();
                if n % 64 != 0 {
                    let last = a.words.len() - 1;
                    a.words[last] |= 1u64 << 63;
                    if n % 64 != 63 {
                        check_cert_bytes(ctx, sc, &cls("bitmask-dead-bits"), &m.encode(), false, &base);
                    }
                }
                let mut m = base.clone();
                let a = pick_half(&mut m, half).unwrap();
                a.words.push(0);
                check_cert_bytes(ctx, sc, &cls("bitmask-spare-word"), &m.encode(), false, &base);
                // signature bytes
                let mut m = base.clone();
                let a = pick_half(&mut m, half).unwrap();
                a.sig[rng.random_range(0..SIG_LEN)] ^= 1 << rng.random_range(0..8);
                check_cert_bytes(ctx, sc, &cls("sig-bitflip"), &m.encode(), false, &base);
                let mut m = base.clone();
                let a = pick_half(&mut m, half).unwrap();
                a.sig = [0u8; SIG_LEN];
                a.sig[0] = 0x40;
                check_cert_bytes(ctx, sc, &cls("sig-identity-point"), &m.encode(), false, &base);
                // the genuine aggregate plus a curve point outside the prime-order subgroup
                let mut m = base.clone();
                let a = pick_half(&mut m, half).unwrap();
                if let Some(alt) = crate::wire::add_cofactor_point(&a.sig, rng.random()) {
                    a.sig = alt;
                    check_cert_bytes(ctx, sc, &cls("sig-plus-cofactor-point"), &m.encode(), false, &base);
                }
                // aggregate over another kind's payload by the same signers
                let wrong_kind = *ALL_VK.iter().find(|k| **k != if half == 0 { k1 } else { k2.unwrap_or(k1) }).unwrap();
                let mut m = base.clone();
                let a = pick_half(&mut m, half).unwrap();
                if let Some(g) = sc.aggregate(&signers, wrong_kind, slot, Some(&h)) {
                    a.sig = g;
                    check_cert_bytes(ctx, sc, &cls("aggregate-over-another-kind"), &m.encode(), false, &base);
                }
                // aggregate of a different signer set under the same bitmask
                if n > 1 {
                    let mut others: Vec<usize> = (0..n).collect();
                    others.shuffle(rng);
                    others.truncate(signers.len().max(1));
                    others.sort_unstable();
                    if others != signers {
                        let mut m = base.clone();
                        let a = pick_half(&mut m, half).unwrap();
                        let vk = if half == 0 { k1 } else { k2.unwrap_or(k1) };
                        a.sig = sc.aggregate(&others, vk, slot, Some(&h)).unwrap();
                        check_cert_bytes(ctx, sc, &cls("aggregate-of-other-signers"), &m.encode(), false, &base);
                    }
                }
            }
            if kind.mixed() {
                // halves swapped: the notar aggregate presented as the fallback aggregate and vice versa
                let mut m = base.clone();
                std::mem::swap(&mut m.a, &mut m.b);
                if m.a != base.a {
                    check_cert_bytes(ctx, sc, &cls("halves-swapped"), &m.encode(), false, &base);
                }
                // a signer present in both halves (genuinely signed both): counted once
                if let (Some(a), Some(_)) = (&base.a, &base.b) {
                    let sa = a.signers();
                    let mut fb2 = fb.clone();
                    fb2.push(sa[0]);
                    fb2.sort_unstable();
                    fb2.dedup();
                    let m = build_cert(ep, kind, slot, Some(&h), &fa, &fb2);
                    check_cert_bytes(ctx, sc, &cls("signer-in-both-halves"), &m.encode(), false, &base);
                }
                // both halves absent
                let mut m = base.clone();
                m.a = None;
                m.b = None;
                check_cert_bytes(ctx, sc, &cls("no-halves"), &m.encode(), false, &base);
                // duplicate the same half twice (same signers, same aggregate, wrong payload for the second)
                if let Some(a) = &base.a {
                    let mut m = base.clone();
                    m.b = Some(a.clone());
                    check_cert_bytes(ctx, sc, &cls("first-half-copied-into-second"), &m.encode(), false, &base);
                }
            }
        }
    }
}

pub fn run(ctx: &mut Ctx) -> Result<(), String> {
    let mut rng = ctx.rng("epochs");
    let iters = ctx.iters(96, 6000);
    let fams = ["equal", "smallint", "exact5", "exact10", "exact100", "heavy", "whale60", "whale80"];
    for it in 0..iters {
        let n = match rng.random_range(0..10) {
            0 => 1,
            1 => 2,
            2..=6 => rng.random_range(3..=9),
            7 => rng.random_range(10..=12),
            8 => *[63usize, 64, 65].choose(&mut rng).unwrap(),
            _ => rng.random_range(13..=30),
        };
        let family = pick_family(&mut rng, &fams);
        let stakes = gen_stakes(&mut rng, family, n);
        let ep = make_epoch(&mut rng, &stakes, family);
        let mut sc = SigCache::new(&ep);
        vote_mutations(ctx, &mut rng, &mut sc);
        cert_mutations(ctx, &mut rng, &mut sc);
        if it == 0 && ctx.sample_cap() {
            ctx.sample(json!({"n": n, "family": family, "stakes": stakes, "objects": "five vote kinds and five certificate types, every listed mutation class"}));
        }
    }
    crate::props::cluster_props::run_c09_nodes(ctx, 16, 320);
    Ok(())
}
