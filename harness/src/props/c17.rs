//! C17 Committee sampling always yields a well-formed, stake-respecting committee.

use alpenglow::ValidatorInfo;
use alpenglow::disseminator::rotor::sampling_strategy::{
    DecayingAcceptanceSampler, FaitAccompli1Sampler, FaitAccompli2Sampler, PartitionSampler, QuorumSamplingStrategy, SamplingStrategy, StakeWeightedSampler,
    TurbineSampler, UniformSampler,
};
use rand::prelude::*;
use rand::rngs::StdRng;
use serde_json::{Value, json};

use crate::common::{FAMILIES, SRng, gen_stakes, make_epoch_cheap};
use crate::evidence::{Ctx, guarded};

fn nbucket(n: usize) -> &'static str {
    match n {
        1 => "n1",
        2 => "n2",
        3..=9 => "n3-9",
        10..=63 => "n10-63",
        64..=199 => "n64-199",
        200..=999 => "n200-999",
        _ => "n1000+",
    }
}

/// Stakes straddling j/k boundaries: fractions just below, on and above multiples of 1/k.
fn straddle(rng: &mut SRng, n: usize, k: u64) -> Vec<u64> {
    let unit: u64 = rng.random_range(1..50);
    let mut v: Vec<u64> = Vec::new();
    // total will be k * unit * m so that j/k boundaries are integers
    let m = (n as u64).div_ceil(k).max(1);
    let total = k * unit * m;
    let mut left = total;
    for i in 0..n {
        let remaining = (n - i) as u64;
        if remaining == 1 {
            v.push(left.max(1));
            break;
        }
        let max_take = left.saturating_sub(remaining - 1).max(1);
        let j = rng.random_range(0..=3u64);
        let base = (j * unit * m).min(max_take);
        let delta: i64 = *[-1i64, 0, 0, 1].choose(rng).unwrap();
        let s = (base as i64 + delta).clamp(1, max_take as i64) as u64;
        v.push(s);
        left -= s.min(left.saturating_sub(remaining - 1));
        if left == 0 {
            left = 1;
        }
    }
    while v.len() < n {
        v.push(1);
    }
    v
}

struct Input {
    family: String,
    stakes: Vec<u64>,
    vals: Vec<ValidatorInfo>,
    k: usize,
}

impl Input {
    fn wit(&self, sampler: &str, extra: Value) -> Value {
        json!({"sampler": sampler, "family": self.family, "n": self.stakes.len(), "k": self.k,
               "stakes": if self.stakes.len() <= 64 { json!(self.stakes) } else { json!({"first": &self.stakes[..16], "total": self.stakes.iter().map(|s| *s as u128).sum::<u128>().to_string()}) },
               "extra": extra})
    }
    fn total(&self) -> u128 {
        self.stakes.iter().map(|s| *s as u128).sum()
    }
}

/// Common oracle for every quorum strategy: size, membership, determinism; `extra` adds
/// per-strategy guarantees on each drawn committee.
fn check_quorum<S: QuorumSamplingStrategy>(ctx: &mut Ctx, name: &str, inp: &Input, build: impl Fn() -> S, seeds: &[u64], extra: impl Fn(&[usize]) -> Option<String>) {
    check_quorum_h(ctx, name, inp, build, seeds, extra, None)
}

/// `single_draws`: for strategies that also serve single draws, performs k of them on the given instance.
#[allow(clippy::type_complexity)]
fn check_quorum_h<S: QuorumSamplingStrategy>(
    ctx: &mut Ctx,
    name: &str,
    inp: &Input,
    build: impl Fn() -> S,
    seeds: &[u64],
    extra: impl Fn(&[usize]) -> Option<String>,
    single_draws: Option<&dyn Fn(&S, &mut StdRng, usize)>,
) {
    ctx.eval();
    ctx.distinct(format!("{name}:{}:{}:k{}", inp.family, nbucket(inp.stakes.len()), kbucket(inp.k)));
    ctx.count(&format!("constructed:{name}"));
    let a = match guarded(&build) {
        Ok(s) => s,
        Err(p) => {
            let ncls = match inp.stakes.len() {
                1 => "n=1",
                2 => "n=2",
                _ => "n>=3",
            };
            ctx.violation(format!("C17 {name} construct {} {ncls}", p.sig()), format!("{} at {}:{} (family {}, n {}, k {})", p.msg, p.file, p.line, inp.family, inp.stakes.len(), inp.k), inp.wit(name, json!("construct A")));
            return;
        }
    };
    let b = match guarded(&build) {
        Ok(s) => s,
        Err(p) => {
            ctx.violation(format!("C17 {name} construct {} (second instance only)", p.sig()), p.msg, inp.wit(name, json!("construct B")));
            return;
        }
    };
    let n = inp.stakes.len();
    let qs = a.quorum_size();
    if qs != b.quorum_size() {
        ctx.violation(format!("C17 {name} quorum_size differs between two instances"), format!("{qs} vs {}", b.quorum_size()), inp.wit(name, json!(null)));
    }
    if qs != inp.k {
        ctx.violation(format!("C17 {name} quorum_size() differs from the configured committee size"), format!("{qs} vs configured {}", inp.k), inp.wit(name, json!(null)));
    }
    for &seed in seeds {
        ctx.eval();
        ctx.count(&format!("draws:{name}"));
        let mut r1 = StdRng::seed_from_u64(seed);
        let mut r2 = StdRng::seed_from_u64(seed);
        // the two instances have different pasts: one of them also served single draws in between (relay
        // look-ups use them); a committee is a function of the validator set and the random source only
        if seed % 2 == 1 {
            if let Some(pre) = single_draws {
                let mut rx = StdRng::seed_from_u64(seed ^ 0x5eed);
                let k = 1 + (seed % 3) as usize;
                if guarded(|| pre(&a, &mut rx, k)).is_ok() {
                    ctx.count("single-draws-before-a-committee");
                }
            }
        }
        let qa = guarded(|| a.sample_quorum(&mut r1));
        let qb = guarded(|| b.sample_quorum(&mut r2));
        let (qa, qb) = match (qa, qb) {
            (Ok(x), Ok(y)) => (x, y),
            (Err(p), _) | (_, Err(p)) => {
                // the rejection sampler's give-up site is one call site whatever the cap m
                let sname = if name.starts_with("DecayingAcceptance") && p.msg.starts_with("rejected all") { "DecayingAcceptance" } else { name };
                ctx.violation(format!("C17 {sname} sample {}", p.sig()), format!("{} at {}:{} ({name}, family {}, n {}, k {})", p.msg, p.file, p.line, inp.family, inp.stakes.len(), inp.k), inp.wit(name, json!({"seed": seed})));
                return;
            }
        };
        let ia: Vec<usize> = qa.iter().map(|v| v.as_usize()).collect();
        let ib: Vec<usize> = qb.iter().map(|v| v.as_usize()).collect();
        if ia.len() != qs {
            ctx.violation(
                format!("C17 {name} committee size differs from quorum_size ({})", if ia.len() > qs { "too many" } else { "too few" }),
                format!("{} members, quorum_size {qs}", ia.len()),
                inp.wit(name, json!({"seed": seed, "committee": ia})),
            );
        }
        if let Some(bad) = ia.iter().find(|i| **i >= n) {
            ctx.violation(format!("C17 {name} drew a non-member"), format!("index {bad} >= n {n}"), inp.wit(name, json!({"seed": seed})));
        }
        if ia != ib {
            ctx.violation(
                format!("C17 {name} two independently constructed instances disagree for the same RNG seed"),
                "committee is not a function of the validator set and the random source only".to_string(),
                inp.wit(name, json!({"seed": seed, "a": ia, "b": ib})),
            );
        }
        if let Some(msg) = extra(&ia) {
            let class = msg.split(':').next().unwrap_or("").to_string();
            ctx.violation(format!("C17 {name} {class}"), msg, inp.wit(name, json!({"seed": seed, "committee": ia})));
        }
    }
}

fn kbucket(k: usize) -> &'static str {
    match k {
        0 => "0",
        1 => "1",
        2..=9 => "2-9",
        10..=64 => "10-64",
        _ => "65+",
    }
}

/// Fait-Accompli guarantee: validator i appears at least floor(stake_i * k / total) times; if its
/// residual weight is exactly zero it appears exactly that often.
fn fa_guarantee(inp: &Input) -> impl Fn(&[usize]) -> Option<String> + '_ {
    move |c: &[usize]| {
        let total = inp.total();
        let mut counts = vec![0u64; inp.stakes.len()];
        for &i in c {
            if i < counts.len() {
                counts[i] += 1;
            }
        }
        for (i, s) in inp.stakes.iter().enumerate() {
            let fl = (*s as u128 * inp.k as u128 / total) as u64;
            if counts[i] < fl {
                return Some(format!("validator below its guaranteed floor(f*k) seats: validator {i} stake {s}/{total} k {} has {} seats, floor is {fl}", inp.k, counts[i]));
            }
        }
        None
    }
}

fn cap_guarantee(cap: u64) -> impl Fn(&[usize]) -> Option<String> {
    move |c: &[usize]| {
        let mut m = std::collections::BTreeMap::new();
        for &i in c {
            *m.entry(i).or_insert(0u64) += 1;
        }
        m.iter().find(|(_, v)| **v > cap).map(|(i, v)| format!("validator exceeds its seat cap: validator {i} drawn {v} times, cap {cap}"))
    }
}

fn zero_guarantee(stakes: &[u64]) -> impl Fn(&[usize]) -> Option<String> + '_ {
    move |c: &[usize]| c.iter().find(|i| stakes.get(**i) == Some(&0)).map(|i| format!("zero-weight validator drawn: validator {i}"))
}

fn one_input(ctx: &mut Ctx, rng: &mut SRng, n: usize, family: &str, k: usize, nseeds: usize) {
    let stakes = if let Some(list) = family.strip_prefix("directed:") {
        list.split(',').map(|x| x.parse().unwrap()).collect()
    } else if family == "straddle" {
        straddle(rng, n, k.max(1) as u64)
    } else {
        gen_stakes(rng, family, n)
    };
    let ep = make_epoch_cheap(rng, &stakes, family);
    let inp = Input { family: family.to_string(), stakes: stakes.clone(), vals: ep.validators().to_vec(), k };
    let seeds: Vec<u64> = (0..nseeds).map(|_| rng.random()).collect();
    let v = || inp.vals.clone();
    let none = |_: &[usize]| None;

    check_quorum(ctx, "IidQuorum<Uniform>", &inp, || UniformSampler::new(v()).into_quorum_strategy(k), &seeds, none);
    check_quorum(ctx, "IidQuorum<StakeWeighted>", &inp, || StakeWeightedSampler::new(v()).into_quorum_strategy(k), &seeds, none);
    if n <= 120 {
        check_quorum(ctx, "IidQuorum<Turbine>", &inp, || TurbineSampler::new(v()).into_quorum_strategy(k), &seeds, none);
        let f = rng.random_range(1..=n + 1);
        check_quorum(ctx, "IidQuorum<Turbine fanout>", &inp, || TurbineSampler::new_with_fanout(v(), f).into_quorum_strategy(k), &seeds, none);
    }
    // decaying acceptance: cap ceil(m) per committee, counters reset between committees; only
    // satisfiable when n * ceil(m) >= k, otherwise the configuration itself is contradictory
    for m in [1.0f64, 2.0, 2.5, 64.0] {
        if (n as f64) * m.ceil() >= k as f64 * 1.0 && (m > 1.0 || n >= k) {
            let pre = |s: &DecayingAcceptanceSampler, r: &mut StdRng, k: usize| {
                for _ in 0..k {
                    let _ = s.sample(r);
                }
            };
            check_quorum_h(ctx, &format!("DecayingAcceptance(m={m})"), &inp, || DecayingAcceptanceSampler::new(v(), m, k), &seeds, cap_guarantee(m.ceil() as u64), Some(&pre));
        }
    }
    check_quorum(ctx, "Partition", &inp, || PartitionSampler::new(v(), k), &seeds, none);
    check_quorum(ctx, "FaitAccompli1<Partition>", &inp, || FaitAccompli1Sampler::new_with_partition_fallback(v(), k as u64), &seeds, fa_guarantee(&inp));
    check_quorum(ctx, "FaitAccompli1<StakeWeighted>", &inp, || FaitAccompli1Sampler::new_with_stake_weighted_fallback(v(), k as u64), &seeds, fa_guarantee(&inp));
    check_quorum(ctx, "FaitAccompli2", &inp, || FaitAccompli2Sampler::new(v(), k as u64), &seeds, fa_guarantee(&inp));

    // zero-weight validators (some, never all) are never drawn by the stake-weighted strategies
    if n >= 2 && rng.random_bool(0.5) {
        let mut zs = stakes.clone();
        let nz = rng.random_range(1..n);
        let mut idx: Vec<usize> = (0..n).collect();
        idx.shuffle(rng);
        for &i in idx.iter().take(nz) {
            zs[i] = 0;
        }
        let zep = make_epoch_cheap(rng, &zs, "with-zeros");
        let zinp = Input { family: format!("{family}+zeros"), stakes: zs.clone(), vals: zep.validators().to_vec(), k };
        let zv = || zinp.vals.clone();
        check_quorum(ctx, "IidQuorum<StakeWeighted>", &zinp, || StakeWeightedSampler::new(zv()).into_quorum_strategy(k), &seeds, zero_guarantee(&zs));
        let nonzero = zs.iter().filter(|s| **s > 0).count();
        if nonzero * 64 >= k {
            check_quorum(ctx, "DecayingAcceptance(m=64)", &zinp, || DecayingAcceptanceSampler::new(zv(), 64.0, k), &seeds, zero_guarantee(&zs));
        }
    }
    // single-validator sampling API: members only
    ctx.eval();
    let r = guarded(|| {
        let s = StakeWeightedSampler::new(v());
        let mut r = StdRng::seed_from_u64(seeds[0]);
        (0..32).map(|_| s.sample(&mut r).as_usize()).all(|i| i < n) && (0..8).all(|_| s.sample_info(&mut r).id.as_usize() < n)
    });
    match r {
        Ok(true) => {}
        Ok(false) => ctx.violation("C17 StakeWeighted sample drew a non-member", "", inp.wit("StakeWeighted", json!(null))),
        Err(p) => ctx.violation(format!("C17 StakeWeighted sample {}", p.sig()), p.msg, inp.wit("StakeWeighted", json!(null))),
    }
    if ctx.sample_cap() && n > 3 {
        ctx.sample(inp.wit("all strategies", json!({"seeds": seeds.len()})));
    }
}

pub fn run(ctx: &mut Ctx) -> Result<(), String> {
    let mut rng = ctx.rng("inputs");
    let fams: Vec<&str> = FAMILIES.iter().copied().chain(["straddle"]).collect();
    let ns_small = [1usize, 2, 3, 4, 5, 7, 10, 16, 33, 50, 64, 65, 100, 128];
    let ns_big = [200usize, 400, 1000, 2000];
    let ks = [1usize, 2, 5, 64, 200];
    // directed inputs (every run, shard 0): the smallest inputs of each input class that the
    // random families reach only occasionally, so that every run observes them
    if ctx.shard == 0 {
        let eq = |n: usize| format!("directed:{}", vec!["1"; n].join(","));
        let cases: Vec<(String, usize)> = vec![
            ("directed:1".into(), 5),
            ("directed:7".into(), 1),
            ("directed:1,1".into(), 5),
            ("directed:1,1".into(), 1),
            ("directed:5,9".into(), 64),
            ("directed:64,4,2,5,5".into(), 200),
            (eq(11), 64),
            (eq(50), 64),
            (eq(128), 64),
            (eq(200), 1),
            ("directed:4,3,3".into(), 5),
            ("directed:1000000000000000,1,1".into(), 3),
            (eq(103), 103),
            ("directed:3000000000000000000,1000000000,5000000000".into(), 64),
        ];
        for (fam, k) in cases {
            let n = fam.matches(',').count() + 1;
            one_input(ctx, &mut rng, n, &fam, k, 3);
        }
    }
    let iters = ctx.iters(1600, 60_000);
    for it in 0..iters {
        let big = rng.random_bool(if ctx.quick() { 0.03 } else { 0.06 });
        let n = if big { *ns_big.choose(&mut rng).unwrap() } else if rng.random_bool(0.7) { *ns_small.choose(&mut rng).unwrap() } else { rng.random_range(1..160) };
        let family = *fams.choose(&mut rng).unwrap();
        let k = match rng.random_range(0..6) {
            5 => n,
            i => ks[i],
        };
        let nseeds = if big { 2 } else if ctx.quick() { 4 } else { 8 };
        one_input(ctx, &mut rng, n, family, k, nseeds);
        let _ = it;
    }
    Ok(())
}
