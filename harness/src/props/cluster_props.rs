//! Cluster-level checks: C01 (agreement), C02 (bounded progress), C05 wire-level rules,
//! C10 (no crash / wedge under hostile input).

use std::collections::{BTreeMap, BTreeSet};
use std::time::Duration;

use rand::prelude::*;
use serde_json::{Value, json};

use crate::adversary::{Chaos, chaos_profiles};
use crate::cluster::DissKind;
use crate::clusterrun::*;
use crate::common::{SRng, gen_stakes, make_epoch};
use crate::evidence::Ctx;
use crate::model::{Bid, FinEv, H32};
use crate::wire::{CK, VK};

const WINDOW: Duration = Duration::from_millis(1600);

/// Picks a set of validators whose stake is strictly below 20 %.
fn pick_minor(rng: &mut SRng, stakes: &[u64], exclude: &BTreeSet<usize>, want: bool) -> BTreeSet<usize> {
    let total: u128 = stakes.iter().map(|s| *s as u128).sum();
    let mut out = BTreeSet::new();
    if !want {
        return out;
    }
    let mut order: Vec<usize> = (0..stakes.len()).filter(|i| !exclude.contains(i)).collect();
    order.shuffle(rng);
    let mut acc = 0u128;
    for i in order {
        let s = stakes[i] as u128;
        if (acc + s) * 5 < total {
            out.insert(i);
            acc += s;
            if rng.random_bool(0.5) {
                break;
            }
        }
    }
    out
}

pub fn report(ctx: &mut Ctx, focus: &str, cfg: &RunCfg, fs: Vec<Finding>, extra: Value) {
    for f in fs {
        if f.prop == focus {
            ctx.violation(format!("{} {}", f.prop, f.sig), f.detail, json!({"config": cfg.describe(), "info": extra}));
        } else {
            ctx.count(&format!("other-property-clause-failed:{}", f.prop));
            if ctx.notes.iter().filter(|n| n.starts_with(&format!("[{}]", f.prop))).count() < 6 {
                ctx.note(format!("[{}] {} | {} | cfg {}", f.prop, f.sig, f.detail.chars().take(160).collect::<String>(), cfg.describe().to_string().chars().take(420).collect::<String>()));
            }
        }
    }
}

fn h32_short_pub(h: &H32) -> String {
    crate::common::hex(&h[..3])
}

fn leader_of(n: usize, slot: u64) -> usize {
    ((slot / 4) % n as u64) as usize
}

/// Looks for the first slot after `finalized` whose votes (everything any validator ever sent for it) can no
/// longer produce a certificate or justify a fallback vote: at least two blocks with notar votes, every live
/// validator has voted, and with all votes counted no threshold of the protocol is met.
fn deadlocked_slot(cfg: &RunCfg, out: &RunOut, finalized: u64) -> Option<String> {
    let total = cfg.ep.total();
    let faulty: u128 = cfg.byz.iter().copied().chain(out.crashed.iter().copied()).collect::<BTreeSet<usize>>().iter().map(|i| cfg.ep.stakes[*i] as u128).sum();
    if faulty * 5 <= total {
        return None;
    }
    let st = |s: &BTreeSet<usize>| -> u128 { s.iter().map(|i| cfg.ep.stakes[*i] as u128).sum() };
    for slot in finalized + 1..finalized + 9 {
        // what the live correct nodes themselves voted
        let mut blocks_voted: BTreeSet<H32> = BTreeSet::new();
        let mut voted: BTreeSet<usize> = BTreeSet::new();
        for (_, from, v) in out.votes_sent.iter() {
            if v.slot == slot && out.correct.contains(from) && matches!(v.kind, VK::Notar | VK::Skip) {
                voted.insert(*from);
                if let (VK::Notar, Some(h)) = (v.kind, v.hash) {
                    blocks_voted.insert(h);
                }
            }
        }
        if blocks_voted.len() < 2 || !out.correct.iter().all(|c| voted.contains(c)) {
            continue;
        }
        // per live correct node: with everything delivered to it (Byzantine votes included), is any certificate or
        // safe-to condition reachable?
        let mut views = Vec::new();
        let mut stuck_everywhere = true;
        for &node in &out.correct {
            let mut notar: BTreeMap<H32, BTreeSet<usize>> = BTreeMap::new();
            let mut skip: BTreeSet<usize> = BTreeSet::new();
            for (_, to, v) in out.votes_delivered.iter() {
                if *to != node || v.slot != slot || v.signer >= cfg.ep.n() {
                    continue;
                }
                match (v.kind, v.hash) {
                    (VK::Notar, Some(h)) => {
                        notar.entry(h).or_default().insert(v.signer);
                    }
                    (VK::Skip, _) => {
                        skip.insert(v.signer);
                    }
                    _ => {}
                }
            }
            let per: Vec<u128> = notar.values().map(st).collect();
            let sum: u128 = per.iter().sum();
            let max: u128 = per.iter().copied().max().unwrap_or(0);
            let sk = st(&skip);
            let any_cert = max * 5 >= 3 * total || sk * 5 >= 3 * total;
            let s2s = (sk + sum - max) * 5 >= 2 * total;
            let s2n = per.iter().any(|nb| *nb * 5 >= 2 * total || (*nb * 5 >= total && (*nb + sk) * 5 >= 3 * total));
            if any_cert || s2s || s2n {
                stuck_everywhere = false;
                break;
            }
            views.push(format!("node {node}: notar {per:?} skip {sk}"));
        }
        if stuck_everywhere {
            return Some(format!("slot {slot}: {} of total {total}; crashed or Byzantine stake {faulty}", views.join("; ")));
        }
    }
    None
}

/// The stalled slot has two blocks voted by correct nodes, and at some live correct node the stake part of
/// safe-to-notar holds for the block it did not vote for (by the votes delivered to it) although it never cast
/// that notar-fallback vote: it is still waiting to obtain the rival block.
fn rival_block_pending(cfg: &RunCfg, out: &RunOut, finalized: u64) -> Option<String> {
    let total = cfg.ep.total();
    let st = |s: &BTreeSet<usize>| -> u128 { s.iter().map(|i| cfg.ep.stakes[*i] as u128).sum() };
    for slot in finalized + 1..finalized + 9 {
        let mut own: BTreeMap<usize, H32> = BTreeMap::new();
        let mut nf: BTreeSet<(usize, H32)> = BTreeSet::new();
        for (_, from, v) in out.votes_sent.iter() {
            if v.slot != slot || !out.correct.contains(from) {
                continue;
            }
            match (v.kind, v.hash) {
                (VK::Notar, Some(h)) => {
                    own.insert(*from, h);
                }
                (VK::NotarFallback, Some(h)) => {
                    nf.insert((*from, h));
                }
                _ => {}
            }
        }
        let blocks: BTreeSet<H32> = own.values().copied().collect();
        if blocks.len() < 2 {
            continue;
        }
        for (&node, mine) in &own {
            let mut notar: BTreeMap<H32, BTreeSet<usize>> = BTreeMap::new();
            let mut skip: BTreeSet<usize> = BTreeSet::new();
            for (_, to, v) in out.votes_delivered.iter() {
                if *to != node || v.slot != slot || v.signer >= cfg.ep.n() {
                    continue;
                }
                match (v.kind, v.hash) {
                    (VK::Notar, Some(h)) => {
                        notar.entry(h).or_default().insert(v.signer);
                    }
                    (VK::Skip, _) => {
                        skip.insert(v.signer);
                    }
                    _ => {}
                }
            }
            let sk = st(&skip);
            for (b, voters) in &notar {
                let nb = st(voters);
                let stake_ok = nb * 5 >= 2 * total || (nb * 5 >= total && (nb + sk) * 5 >= 3 * total);
                if b != mine && stake_ok && !nf.contains(&(node, *b)) {
                    return Some(format!("slot {slot}: node {node} sees notar stake {nb}/{total} for the block it did not vote for and never cast notar-fallback for it"));
                }
            }
        }
    }
    None
}

/// C02: bounded progress after the stabilisation instant.
pub fn progress_oracle(cfg: &RunCfg, out: &RunOut) -> (Vec<Finding>, Value, usize) {
    let mut f = Vec::new();
    let n = cfg.ep.n();
    let faulty: BTreeSet<usize> = cfg.byz.iter().copied().chain(cfg.crashes.iter().map(|c| c.0)).collect();
    let judge_from = cfg.t_stable + 2 * WINDOW + Duration::from_millis(400);
    let end = cfg.duration;
    // (a) finalized slot keeps advancing at every correct node
    let max_run = {
        // longest run of consecutive windows with faulty leaders in the rotation
        let mut best = 0;
        let mut cur = 0;
        for w in 0..2 * n {
            if faulty.contains(&(w % n)) {
                cur += 1;
                best = best.max(cur);
            } else {
                cur = 0;
            }
        }
        best
    };
    let bound = WINDOW * 2 + Duration::from_millis(2600) * max_run as u32 + Duration::from_millis(800);
    for &v in &out.correct {
        let series: Vec<(Duration, u64)> = out.samples.iter().filter(|(t, _)| *t >= judge_from).filter_map(|(t, m)| m.get(&v).map(|s| (*t, *s))).collect();
        let mut last_change = judge_from;
        let mut last_val = series.first().map(|x| x.1).unwrap_or(0);
        for (t, s) in &series {
            if *s > last_val {
                last_val = *s;
                last_change = *t;
            } else if *t - last_change > bound {
                // is the chain stuck behind a slot that the voting rules can never certify? (an equivocating leader
                // split the notar votes so that no certificate and no safe-to condition is reachable any more)
                let deadlock = deadlocked_slot(cfg, out, last_val);
                if deadlock.is_none() {
                    if let Some(why) = rival_block_pending(cfg, out, last_val) {
                        // not judged (see DESIGN.md section 15): progress hinges on correct nodes fetching an
                        // equivocating leader's other block by repair, which this harness cannot vouch for
                        f.push(Finding { prop: "UNJUDGED", sig: "stall behind an equivocated slot whose rival block some nodes never registered".into(), detail: format!("node {v}: stuck at slot {last_val}; {why}") });
                        break;
                    }
                }
                let sig = match deadlock {
                    Some(_) => "an equivocating leader split the votes of a slot so that no certificate and no safe-to condition is reachable (more than 20 % of the stake crashed or Byzantine): finalization stops for good".to_string(),
                    None => "highest finalized slot stopped advancing after stabilisation".to_string(),
                };
                f.push(Finding { prop: "C02", sig, detail: format!("node {v}: stuck at slot {last_val} from {} ms to {} ms (bound {} ms){}", last_change.as_millis(), t.as_millis(), bound.as_millis(), deadlock.map(|d| format!("; {d}")).unwrap_or_default()) });
                break;
            }
        }
    }
    // blocks produced by correct leaders, from the observer tree
    let mut judged_blocks = 0usize;
    let fin_at = |v: usize| -> BTreeMap<u64, H32> {
        let mut m = BTreeMap::new();
        for e in &out.fin_logs[&v] {
            if let FinEv::Finalized(b) | FinEv::ImplicitlyFinalized(b) = e {
                m.insert(b.0, b.1);
            }
        }
        m
    };
    let skipped_at = |v: usize| -> BTreeSet<u64> {
        let mut s: BTreeSet<u64> = out.fin_logs[&v].iter().filter_map(|e| if let FinEv::ImplicitlySkipped(s) = e { Some(*s) } else { None }).collect();
        for c in out.certs_sent.iter().filter(|(_, from, c)| *from == v && c.kind == CK::Skip) {
            s.insert(c.2.slot);
        }
        s
    };
    let fins: BTreeMap<usize, BTreeMap<u64, H32>> = out.correct.iter().map(|v| (*v, fin_at(*v))).collect();
    let skips: BTreeMap<usize, BTreeSet<u64>> = out.correct.iter().map(|v| (*v, skipped_at(*v))).collect();
    let tail = Duration::from_millis(4500);
    for (b, _) in out.tree.iter() {
        let slot = b.0;
        if slot == 0 {
            continue;
        }
        let l = leader_of(n, slot);
        if faulty.contains(&l) {
            continue;
        }
        let win_first = slot - slot % 4;
        let Some(t0) = out.first_shred.get(&win_first) else { continue };
        if *t0 < judge_from || *t0 + tail > end {
            continue;
        }
        judged_blocks += 1;
        for &v in &out.correct {
            match fins[&v].get(&slot) {
                Some(h) if *h == b.1 => {}
                other => {
                    f.push(Finding {
                        prop: "C02",
                        sig: format!("a correct leader's block in a window after stabilisation was not finalized at a correct node ({})", if other.is_some() { "another block finalized" } else if skips[&v].contains(&slot) { "slot skipped" } else { "undecided" }),
                        detail: format!("slot {slot} (leader {l}, window started at {} ms) at node {v}", t0.as_millis()),
                    });
                }
            }
            let _ = v;
        }
        // (d) one voting round suffices when >= 80 % of the stake is correct and responsive: the notar votes
        // cast for the block carry a fast-finalization quorum (whether a given node assembles the
        // certificate before the slow path prunes the slot is a race, so it is counted, not judged)
        let max_stake = cfg.ep.stakes.iter().copied().max().unwrap_or(0) as u128;
        if cfg.crashes.is_empty() && cfg.byz.is_empty() && cfg.delta <= Duration::from_millis(10) && max_stake * 5 < cfg.ep.total() {
            // judged only in near-synchronous runs without a dominant validator: otherwise the slow path can
            // legitimately finalize the slot on a quorum's votes before the remaining nodes have seen the block,
            // and nodes do not vote in slots that are already finalized
            let voters: BTreeSet<usize> = out.votes_sent.iter().filter(|(_, s, v)| !cfg.byz.contains(s) && v.slot == slot && v.kind == VK::Notar && v.hash == Some(b.1)).map(|(_, _, v)| v.signer).collect();
            let st: u128 = voters.iter().map(|i| cfg.ep.stakes[*i] as u128).sum();
            let correct_stake: u128 = out.correct.iter().map(|i| cfg.ep.stakes[*i] as u128).sum();
            if correct_stake * 5 >= 4 * cfg.ep.total() && st * 5 < 4 * cfg.ep.total() {
                f.push(Finding { prop: "C02", sig: "notar votes for a correct leader's block stay below the fast-finalization quorum although >= 80 % of the stake is correct and responsive".into(), detail: format!("slot {slot}: notar stake {st}/{}", cfg.ep.total()) });
            }
        }
    }
    // (b) windows of crashed / silent leaders are skipped and do not block later windows
    let last_voted: u64 = out.votes_sent.iter().map(|v| v.2.slot).max().unwrap_or(0);
    let mut faulty_windows = 0;
    for w in 1..=last_voted / 4 {
        let l = (w % n as u64) as usize;
        let silent = cfg.crashes.iter().any(|(c, _)| *c == l) || (cfg.byz.contains(&l) && cfg.byz_leader == ByzLeader::Silent);
        if !silent {
            continue;
        }
        // judged if the window's first vote happened after stabilisation and well before the end
        let t_first = out.votes_sent.iter().filter(|v| v.2.slot / 4 == w).map(|v| v.0).min();
        let Some(t_first) = t_first else { continue };
        if t_first < judge_from || t_first + Duration::from_millis(6000) > end {
            continue;
        }
        // only crashed-before-window leaders count
        if let Some((_, tc)) = cfg.crashes.iter().find(|(c, _)| *c == l) {
            if *tc + WINDOW > t_first {
                continue;
            }
        }
        faulty_windows += 1;
        for &v in &out.correct {
            for s in w * 4..w * 4 + 4 {
                if !skips[&v].contains(&s) {
                    f.push(Finding { prop: "C02", sig: "window of a crashed or silent leader was not skipped at a correct node".into(), detail: format!("slot {s} (leader {l}) at node {v}") });
                }
            }
        }
    }
    let info = json!({"judged_blocks": judged_blocks, "faulty_leader_windows_judged": faulty_windows, "max_consecutive_faulty_leaders": max_run, "stall_bound_ms": bound.as_millis() as u64});
    (f, info, judged_blocks)
}

/// One execution on a runtime of its own: dropping the runtime afterwards drops every task the nodes spawned
/// (a shared runtime kept them - and their pools and blockstores - alive for the whole shard: gigabytes after
/// a few dozen executions).
pub fn run_exec(cfg: &RunCfg, rng: &mut SRng) -> RunOut {
    let rt = tokio::runtime::Builder::new_current_thread().enable_all().start_paused(true).build().expect("rt");
    let out = rt.block_on(tokio::task::unconstrained(execute(cfg, rng)));
    drop(rt);
    out
}

pub fn base_cfg(rng: &mut SRng, quick: bool, want_byz: bool, want_crash: bool) -> RunCfg {
    let n = if quick { rng.random_range(4..=7) } else { rng.random_range(4..=11) };
    let fam = *["equal", "equal", "smallint", "exact10", "heavy", "whale60"].choose(rng).unwrap();
    let fam = if fam == "whale60" && n < 5 { "equal" } else { fam };
    let stakes = gen_stakes(rng, fam, n);
    let ep = make_epoch(rng, &stakes, fam);
    let byz = pick_minor(rng, &stakes, &BTreeSet::new(), want_byz);
    let crash_set = pick_minor(rng, &stakes, &byz, want_crash);
    RunCfg {
        ep,
        byz,
        byz_leader: ByzLeader::Silent,
        byz_votes: true,
        byz_certs: true,
        crashes: crash_set.into_iter().map(|v| (v, Duration::ZERO)).collect(),
        chaos: chaos_profiles()[0].clone(),
        t_stable: Duration::ZERO,
        delta: Duration::from_millis(10),
        duration: Duration::from_secs(20),
        diss: if rng.random_bool(0.7) { DissKind::Rotor } else { DissKind::Trivial },
        tx_rate: *[0u32, 5, 40].choose(rng).unwrap(),
        withhold: None,
        hostile: None,
        rival: None,
        track_routes: false,
        force_byz_mode: None,
        slow_diss: None,
        crash_after_first_block: None,
        late_diss: None,
        laggard: None,
        label: String::new(),
    }
}

/// Directed C02 family: thin margin (see run_c02).
pub fn thin_margin_cfg(rng: &mut SRng, cfg: &mut RunCfg) {
    // roles: 0 Byzantine (notarizes, never finalizes), 1 crashed, last = the slow correct node
    let stakes: Vec<u64> = if rng.random_bool(0.5) { vec![18, 22, 30, 20, 10] } else { vec![18, 22, 25, 15, 11, 9] };
    let ix_byz = 0usize;
    let ix_crash = 1usize;
    let ix_slow = stakes.len() - 1;
    let mut order: Vec<usize> = (0..stakes.len()).collect();
    order.shuffle(rng);
    let permuted: Vec<u64> = order.iter().map(|i| stakes[*i]).collect();
    let pos = |orig: usize| order.iter().position(|i| *i == orig).unwrap();
    cfg.ep = make_epoch(rng, &permuted, "thin-margin");
    cfg.byz = [pos(ix_byz)].into_iter().collect();
    cfg.byz_leader = ByzLeader::Silent;
    cfg.byz_votes = true;
    cfg.force_byz_mode = Some(crate::adversary::ByzVote::NotarOnly);
    cfg.byz_certs = false;
    cfg.crashes = vec![(pos(ix_crash), Duration::ZERO)];
    cfg.diss = DissKind::Trivial;
    cfg.chaos.partition.clear();
    cfg.delta = *[Duration::from_millis(100), Duration::from_millis(240)].choose(rng).unwrap();
    if rng.random_bool(0.7) {
        cfg.slow_diss = Some(pos(ix_slow));
    }
}

/// Directed bypass script: a correct leader crashes right after its window's first block (one certified
/// block, then skipped slots); the next leader is Byzantine and builds on the block *before* that one. Correct
/// nodes must not vote for it: the only ready parent of the next window is the crashed leader's block.
pub fn bypass_cfg(rng: &mut SRng, cfg: &mut RunCfg) {
    let n = 11usize;
    let stakes = vec![1u64; n];
    cfg.ep = make_epoch(rng, &stakes, "equal");
    let w = rng.random_range(1..=3u64);
    let victim = (w % n as u64) as usize;
    let bz = ((w + 1) % n as u64) as usize;
    cfg.byz = [bz].into_iter().collect();
    cfg.crashes.clear();
    cfg.crash_after_first_block = Some((victim, w));
    cfg.byz_leader = ByzLeader::OldParent;
    cfg.byz_votes = true;
    cfg.force_byz_mode = Some(crate::adversary::ByzVote::HonestLooking);
    cfg.byz_certs = true;
    cfg.chaos = chaos_profiles()[0].clone();
    cfg.t_stable = Duration::ZERO;
    cfg.delta = Duration::from_millis(20);
    cfg.diss = DissKind::Trivial;
    cfg.tx_rate = 0;
    cfg.duration = Duration::from_secs(14);
}

/// Turns `cfg` into the directed rival-split script (five validators, stakes on the thresholds).
pub fn rival_cfg(rng: &mut SRng, cfg: &mut RunCfg) {
    let z = rng.random_range(1..=19u64);
    let c = rng.random_range(40 - z.min(39)..=40).max(2);
    let ua = 100 - z - c;
    // neither X-group node may reach safe-to-skip on its own stake (40 %) before the certificate arrives
    let u = rng.random_range(ua.saturating_sub(39).max(1)..=39.min(ua - 1));
    let a = ua - u;
    let c1 = rng.random_range(1..c);
    let c2 = c - c1;
    // the Byzantine validator leads window `iz` (1..=4)
    let iz = rng.random_range(1..=4usize);
    let mut rest: Vec<usize> = (0..5).filter(|i| *i != iz).collect();
    rest.shuffle(rng);
    let (iu, ia, ic1, ic2) = (rest[0], rest[1], rest[2], rest[3]);
    let mut stakes = vec![0u64; 5];
    stakes[iz] = z;
    stakes[iu] = u;
    stakes[ia] = a;
    stakes[ic1] = c1;
    stakes[ic2] = c2;
    cfg.ep = make_epoch(rng, &stakes, "rival-thresholds");
    cfg.byz = [iz].into_iter().collect();
    cfg.crashes.clear();
    cfg.byz_leader = ByzLeader::RivalSplit;
    cfg.byz_votes = true;
    cfg.byz_certs = true;
    cfg.chaos = chaos_profiles()[0].clone();
    cfg.t_stable = Duration::ZERO;
    cfg.delta = Duration::from_millis(20);
    cfg.diss = DissKind::Trivial;
    cfg.tx_rate = 0;
    cfg.duration = Duration::from_secs(14 + 2 * iz as u64);
    cfg.rival = Some(Rival { z: iz, u: iu, a: ia, c1: ic1, c2: ic2 });
}

pub fn run_c02(ctx: &mut Ctx) -> Result<(), String> {
    let mut rng = ctx.rng("c02");
    let runs = ctx.iters(32, 800);
    if ctx.shard == 0 {
        // directed (reproduces a recorded finding every run): 6 equal validators, one crashed, one Byzantine
        // leader that shows one block to half of the correct nodes and another block to the other half
        let mut cfg = base_cfg(&mut rng, true, false, false);
        cfg.ep = make_epoch(&mut rng, &[1u64; 6], "equal");
        cfg.byz = [1usize].into_iter().collect();
        cfg.byz_leader = ByzLeader::TwoBlocks;
        cfg.byz_votes = false;
        cfg.byz_certs = false;
        cfg.crashes = vec![(3, Duration::from_millis(500))];
        cfg.chaos = chaos_profiles()[0].clone();
        cfg.t_stable = Duration::ZERO;
        cfg.delta = Duration::from_millis(10);
        cfg.diss = DissKind::Trivial;
        cfg.tx_rate = 0;
        cfg.duration = Duration::from_secs(20);
        cfg.label = "c02-equivocation-with-crash".into();
        let out = run_exec(&cfg, &mut rng);
        ctx.count("equivocation-with-crash-executions");
        judge_all(ctx, "C02", &cfg, &out);
    }
    for run_ix in 0..runs {
        let (wb, wc) = (rng.random_bool(0.6), rng.random_bool(0.5));
        let mut cfg = base_cfg(&mut rng, ctx.quick(), wb, wc);
        let chaos: Chaos = chaos_profiles().choose(&mut rng).unwrap().clone();
        cfg.t_stable = *[Duration::ZERO, Duration::from_secs(3), Duration::from_secs(6)].choose(&mut rng).unwrap();
        cfg.chaos = chaos;
        // C02's premise: arbitrary finite delays and reorderings before stabilisation, no loss
        // (lost votes are only recovered by the standstill timer, which runs on the wall clock)
        cfg.chaos.loss = 0.0;
        if rng.random_bool(0.3) && cfg.ep.n() >= 5 {
            // a partition that heals at the stabilisation instant
            let k = rng.random_range(1..cfg.ep.n() / 2 + 1);
            cfg.chaos.partition = (0..cfg.ep.n()).collect::<Vec<_>>().sample(&mut rng, k).copied().collect();
            cfg.chaos.heal = cfg.t_stable;
            cfg.chaos.name = "partition";
        }
        cfg.delta = *[Duration::from_millis(10), Duration::from_millis(100), Duration::from_millis(240)].choose(&mut rng).unwrap();
        cfg.byz_leader = *[ByzLeader::Silent, ByzLeader::Silent, ByzLeader::TwoBlocks, ByzLeader::OneBlock].choose(&mut rng).unwrap();
        cfg.byz_votes = rng.random_bool(0.7);
        // crashes happen before stabilisation (crashed nodes stay crashed)
        for c in cfg.crashes.iter_mut() {
            c.1 = Duration::from_millis(rng.random_range(0..=cfg.t_stable.as_millis() as u64));
        }
        cfg.duration = cfg.t_stable + Duration::from_secs(if ctx.quick() { 22 } else { 34 });
        let faulty_stake: u128 = cfg.byz.iter().chain(cfg.crashes.iter().map(|c| &c.0)).map(|i| cfg.ep.stakes[*i] as u128).sum();
        if faulty_stake * 4 >= cfg.ep.total() {
            cfg.diss = DissKind::Trivial;
        }
        cfg.label = "c02".into();
        if (run_ix as usize + ctx.shard) % 4 == 3 {
            // directed: thin margin. 19 % silent Byzantine, 20 % crashed, 61 % correct: the fast path is out of
            // reach and slow finalization needs a finalization vote from *every* correct node in every slot,
            // whatever order its own vote, the others' votes and the certificates reach it in
            thin_margin_cfg(&mut rng, &mut cfg);
            cfg.label = "c02-thin-margin".into();
            ctx.count("thin-margin-executions");
        }
        if (run_ix as usize + ctx.shard) % 4 == 1 {
            // directed: split votes before stabilisation. Blocks reach a 40-45 % minority of the stake late, so it
            // times out and skips while the majority (below 60 %) notarizes: no slot of that period gets a
            // certificate without the fallback votes; after stabilisation progress must resume
            let n = *[7usize, 9, 11, 11].choose(&mut rng).unwrap();
            cfg.ep = make_epoch(&mut rng, &vec![1u64; n], "equal");
            cfg.byz.clear();
            cfg.crashes.clear();
            cfg.force_byz_mode = None;
            cfg.slow_diss = None;
            let mut k = (n * 9).div_ceil(20); // ceil(0.45 n): 4 of 7, 5 of 9, 5 of 11 (skip certificates carry the period)
            let mut pool: Vec<usize> = (0..n).collect();
            pool.shuffle(&mut rng);
            if n == 11 && rng.random_bool(0.7) {
                // neither a notarization nor a skip certificate can form: 2 crashed (18 %), 3 late (27 %), 6 on time
                // (55 %): only notar-fallback votes certify the blocks, and each child waits for its parent's
                // notar-fallback certificate
                k = 3;
                cfg.crashes = vec![(pool[10], Duration::ZERO), (pool[9], Duration::ZERO)];
                cfg.label = "c02-split-fallback-only".into();
            }
            let late: BTreeSet<usize> = pool[..k].iter().copied().collect();
            cfg.chaos = chaos_profiles()[0].clone();
            cfg.t_stable = Duration::from_secs(*[4u64, 7].choose(&mut rng).unwrap());
            cfg.late_diss = Some((late, Duration::from_millis(*[900u64, 1500, 2500].choose(&mut rng).unwrap())));
            cfg.delta = Duration::from_millis(*[10u64, 100].choose(&mut rng).unwrap());
            cfg.diss = DissKind::Trivial;
            cfg.duration = cfg.t_stable + Duration::from_secs(if ctx.quick() { 22 } else { 34 });
            if cfg.label != "c02-split-fallback-only" {
                cfg.label = "c02-split-before-stabilisation".into();
            }
            ctx.count("split-before-stabilisation-executions");
        }
        let out = run_exec(&cfg, &mut rng);
        judge_all(ctx, "C02", &cfg, &out);
    }
    Ok(())
}

/// Runs every oracle on an execution and reports the findings of `focus`.
pub fn judge_all(ctx: &mut Ctx, focus: &str, cfg: &RunCfg, out: &RunOut) {
    ctx.eval();
    ctx.count("executions");
    ctx.count_n("virtual-seconds", cfg.duration.as_secs());
    ctx.count_n("datagrams-sent", out.net_stats.0);
    ctx.count_n("datagrams-dropped", out.net_stats.2);
    ctx.count_n("votes-observed", out.votes_sent.len() as u64);
    ctx.count_n("certificates-observed", out.certs_sent.len() as u64);
    ctx.count_n("byzantine-votes-sent", out.byz_votes_sent);
    ctx.count_n("byzantine-certificates-forwarded", out.byz_certs_sent);
    ctx.count_n("repair-requests", out.repair_requests);
    if out.overflow_dropped > 0 {
        ctx.count("executions-that-hit-the-in-flight-bound");
        ctx.count_n("datagrams-dropped-by-the-in-flight-bound", out.overflow_dropped);
    }
    let fin_total: usize = out.fin_logs.values().map(|l| l.len()).sum();
    ctx.count_n("finalization-events", fin_total as u64);
    let (sf, sinfo) = safety_oracle(cfg, out);
    let (vf, vjudged) = voting_rules_oracle(cfg, out);
    ctx.count_n("node-slot-vote-sets-judged", vjudged);
    // the progress clauses presuppose C02's premise (no hostile floods, no loss)
    let (pf, pinfo, judged_blocks) = if focus == "C02" { progress_oracle(cfg, out) } else { (Vec::new(), json!(null), 0) };
    // panics in the crate under test and dead node tasks (C10)
    let mut cf = Vec::new();
    for p in &out.panics {
        if p.in_repo() {
            cf.push(Finding { prop: "C10", sig: format!("node task {}", p.sig()), detail: format!("{} at {}:{}", p.msg, p.file, p.line) });
        }
    }
    for v in &out.dead_tasks {
        cf.push(Finding { prop: "C10", sig: "a correct node's run() task ended".into(), detail: format!("node {v}") });
    }
    if let Some((fs, sent, missing)) = &out.laggard {
        ctx.count("laggard-scenario:executions");
        ctx.count_n("laggard-scenario:messages-fed", *sent as u64);
        if *fs > 0 {
            ctx.distinct(format!("laggard:{}:n{}", if cfg.laggard.is_some_and(|l| l.3) { "votes-only" } else { "certificates-first" }, cfg.ep.n()));
        }
        if !missing.is_empty() {
            cf.push(Finding { prop: "C03", sig: "a node holds no certificate although the votes delivered to it reach the threshold (lagging node, slots it still retains)".into(), detail: format!("fed finalization of slot {fs}; missing {:?}", missing) });
        }
    }
    if let Some((from, m)) = out.invalid_certs_sent.first() {
        // owned by C03 (what a node broadcasts validates everywhere) and by C09 (a certificate only from votes
        // that carry their signers' real signatures)
        for prop in ["C03", "C09"] {
            cf.push(Finding { prop, sig: "a correct node broadcast a certificate that does not pass validation".into(), detail: format!("node {from}: {:?} slot {} ({} such certificates in this execution)", m.kind, m.slot, out.invalid_certs_sent.len()) });
        }
    }
    if cfg.label == "c13-nodes" {
        // timely, fault-free run with forged copies of genuine shreds in the air: every leader is correct and every
        // block arrives in time, so no correct node has a reason to skip any slot of the steady phase
        let last = out.votes_sent.iter().map(|v| v.2.slot).max().unwrap_or(0);
        let skips: Vec<(usize, u64)> = out.votes_sent.iter().filter(|(_, _, v)| matches!(v.kind, VK::Skip | VK::SkipFallback) && v.slot >= 4 && v.slot + 8 <= last).map(|(_, from, v)| (*from, v.slot)).collect();
        if let Some((from, slot)) = skips.first() {
            cf.push(Finding { prop: "C13", sig: "node level: a correct node skipped a slot of a correct, timely leader while forged copies of its shreds were injected".into(), detail: format!("node {from} slot {slot} ({} skip votes in the steady phase)", skips.len()) });
        }
        ctx.count_n("c13-nodes:slots-judged", last.saturating_sub(11));
    }
    if !out.oversize.is_empty() {
        cf.push(Finding { prop: "C19", sig: "a correct node emitted a datagram above 1500 bytes".into(), detail: format!("{:?}", out.oversize.first()) });
    }
    let timeline: Vec<Value> = out.samples.iter().filter(|(t, _)| t.as_millis() % 1000 == 0).map(|(t, m)| json!({"t_ms": t.as_millis() as u64, "finalized": m})).collect();
    let mut vote_summary: BTreeMap<u64, Vec<String>> = BTreeMap::new();
    for (t, from, v) in out.votes_sent.iter().take(4000) {
        if vote_summary.len() < 40 || vote_summary.contains_key(&v.slot) {
            vote_summary.entry(v.slot).or_default().push(format!("{}ms v{} {}{}", t.as_millis(), from, v.kind.name(), v.hash.map(|h| format!(":{}", h32_short_pub(&h))).unwrap_or_default()));
        }
    }
    let info = json!({"safety": sinfo, "progress": pinfo, "max_datagram": out.net_stats.3, "byz_modes": out.byz_modes, "timeline": timeline, "votes_by_slot": vote_summary,
                      "first_shred_ms": out.first_shred.iter().take(60).map(|(s, t)| (s.to_string(), t.as_millis() as u64)).collect::<BTreeMap<_, _>>()});
    match focus {
        "C01" => {
            let contested = sinfo["contested_slots"].as_u64().unwrap_or(0);
            let fin = sinfo["finalized_slots"].as_u64().unwrap_or(0);
            if fin >= 1 && contested >= 1 {
                ctx.distinct(format!("c01:n{}:{}:{}:{:?}:byz{}:crash{}:fin{}:cont{}", cfg.ep.n(), cfg.ep.family, cfg.chaos.name, cfg.byz_leader, cfg.byz.len(), cfg.crashes.len(), fin.min(20), contested.min(10)));
            }
        }
        "C02" => {
            if judged_blocks >= 3 {
                ctx.distinct(format!("c02:n{}:{}:{}:d{}:byz{}{:?}:crash{:?}", cfg.ep.n(), cfg.ep.family, cfg.chaos.name, cfg.delta.as_millis(), cfg.byz.len(), cfg.byz_leader, cfg.crashes.iter().map(|c| c.0).collect::<Vec<_>>()));
            } else {
                ctx.count("executions-with-too-few-judged-blocks");
            }
        }
        "C05" => {
            if vjudged > 0 {
                ctx.distinct(format!("c05w:n{}:{}:{}:byz{}", cfg.ep.n(), cfg.ep.family, cfg.chaos.name, cfg.byz.len()));
            }
        }
        _ => {}
    }
    if let Some(r) = &cfg.rival {
        // did the directed script reach the situation it aims at?
        let slot = 4 * r.z as u64;
        let nf: BTreeSet<usize> = out.votes_sent.iter().filter(|(_, s, v)| (*s == r.u || *s == r.a) && v.slot == slot && v.kind == VK::NotarFallback).map(|x| x.1).collect();
        let fin: BTreeSet<usize> = out.votes_sent.iter().filter(|(_, s, v)| (*s == r.u || *s == r.a) && v.slot == slot && v.kind == VK::Final).map(|x| x.1).collect();
        let blocks: BTreeSet<H32> = out.byz_blocks.iter().filter(|(b, _)| b.0 == slot).map(|(b, _)| b.1).collect();
        let certified: BTreeSet<(CK, H32)> = out.held.values().flatten().filter(|c| c.slot == slot).filter_map(|c| c.hash.map(|h| (c.kind, h))).collect();
        let certified: BTreeSet<(CK, H32)> = certified.into_iter().chain(out.certs_sent.iter().map(|c| &c.2).chain(out.certs_delivered.iter().map(|c| &c.2)).filter(|c| c.slot == slot).filter_map(|c| c.hash.map(|h| (c.kind, h)))).collect();
        let both = blocks.len() == 2 && blocks.iter().all(|h| certified.iter().any(|(_, x)| x == h));
        let notarized: Vec<H32> = out.certs_sent.iter().map(|c| &c.2).chain(out.certs_delivered.iter().map(|c| &c.2)).filter(|c| c.slot == slot && c.kind == CK::Notar).filter_map(|c| c.hash).collect();
        let chain_at_slot: BTreeSet<H32> = out.fin_logs.values().flatten().filter_map(|e| match e { FinEv::Finalized(b) | FinEv::ImplicitlyFinalized(b) if b.0 == slot => Some(b.1), _ => None }).collect();
        ctx.count("rival-script:executions");
        ctx.count_n("rival-script:x-group-nodes-cast-notar-fallback", nf.len() as u64);
        ctx.count_n("rival-script:x-group-nodes-cast-final", fin.len() as u64);
        if both {
            ctx.count("rival-script:both-blocks-certified");
        }
        for h in &chain_at_slot {
            ctx.count(if notarized.contains(h) { "rival-script:chain-continued-on-the-notarized-block" } else { "rival-script:chain-continued-on-the-fallback-certified-block" });
        }
        if both && !chain_at_slot.is_empty() {
            ctx.distinct(format!("c01:rival:z{}:{}", r.z, if chain_at_slot.iter().any(|h| notarized.contains(h)) { "on-notarized" } else { "on-fallback" }));
        }
    }
    report(ctx, focus, cfg, sf, info.clone());
    report(ctx, focus, cfg, vf, info.clone());
    report(ctx, focus, cfg, pf, info.clone());
    report(ctx, focus, cfg, cf, info.clone());
    if ctx.sample_cap() {
        ctx.sample(json!({"config": cfg.describe(), "observed": info, "finalized_per_node": out.samples.last().map(|s| s.1.clone())}));
    }
}

pub fn run_c01(ctx: &mut Ctx) -> Result<(), String> {
    let mut rng = ctx.rng("c01");
    let runs = ctx.iters(32, 1600);
    for i in 0..runs {
        let wc = rng.random_bool(0.4);
        let mut cfg = base_cfg(&mut rng, ctx.quick(), true, wc);
        let mut ch = chaos_profiles();
        ch.remove(0);
        cfg.chaos = ch.choose(&mut rng).unwrap().clone();
        // fully asynchronous for most of the run, then a calm tail so that something finalizes
        cfg.duration = Duration::from_secs(if ctx.quick() { 18 } else { 30 });
        cfg.t_stable = cfg.duration.mul_f64(*[0.5, 0.7, 1.0].choose(&mut rng).unwrap());
        cfg.delta = Duration::from_millis(*[20u64, 150].choose(&mut rng).unwrap());
        cfg.byz_leader = *[ByzLeader::TwoBlocks, ByzLeader::TwoBlocks, ByzLeader::TwoBlocksLastSlot, ByzLeader::OneBlock, ByzLeader::Late, ByzLeader::Silent].choose(&mut rng).unwrap();
        for c in cfg.crashes.iter_mut() {
            c.1 = Duration::from_millis(rng.random_range(0..cfg.duration.as_millis() as u64));
        }
        // directed scripts on top of the random mix
        let script = (i as usize + ctx.shard) % 4;
        match script {
            0 => {
                // S1/S2: leader delivery timed against the timeouts: moderate delays around Delta
                cfg.chaos.max_delay = Duration::from_millis(900);
                cfg.chaos.loss = 0.0;
                cfg.chaos.name = "around-timeouts";
            }
            1 => {
                // S3: stakes sitting exactly on the thresholds
                let n = cfg.ep.n().max(5);
                let stakes = gen_stakes(&mut rng, "exact10", n.min(10));
                cfg.ep = make_epoch(&mut rng, &stakes, "exact10");
                cfg.byz = pick_minor(&mut rng, &stakes, &BTreeSet::new(), true);
                cfg.crashes.clear();
            }
            2 => {
                // S2': rival split on the thresholds (see clusterrun::Rival): a notarized block and a
                // notar-fallback certified sibling, the notarization certificate arriving as a message
                // after the fallback votes; the chain continues on either block
                rival_cfg(&mut rng, &mut cfg);
            }
            3 => {
                // S6: a leader that builds past the latest certified block after a half-empty window
                if rng.random_bool(0.5) {
                    bypass_cfg(&mut rng, &mut cfg);
                    ctx.count("bypass-script:executions");
                } else {
                    cfg.byz_leader = ByzLeader::OldParent;
                }
            }
            _ => {}
        }
        cfg.label = format!("c01-script{script}");
        let out = run_exec(&cfg, &mut rng);
        judge_all(ctx, "C01", &cfg, &out);
    }
    Ok(())
}

pub fn run_c05_wire(ctx: &mut Ctx, runs_q: u64, runs_t: u64) {
    let mut rng = ctx.rng("c05w");
    let runs = ctx.iters(runs_q, runs_t);
    for _ in 0..runs {
        let (wb, wc) = (rng.random_bool(0.8), rng.random_bool(0.3));
        let mut cfg = base_cfg(&mut rng, ctx.quick(), wb, wc);
        cfg.chaos = chaos_profiles().choose(&mut rng).unwrap().clone();
        cfg.duration = Duration::from_secs(if ctx.quick() { 14 } else { 24 });
        cfg.t_stable = cfg.duration.mul_f64(0.6);
        cfg.delta = Duration::from_millis(100);
        cfg.byz_leader = *[ByzLeader::TwoBlocks, ByzLeader::OneBlock, ByzLeader::Silent].choose(&mut rng).unwrap();
        for c in cfg.crashes.iter_mut() {
            c.1 = Duration::from_millis(rng.random_range(0..cfg.duration.as_millis() as u64));
        }
        cfg.label = "c05-wire".into();
        let out = run_exec(&cfg, &mut rng);
        judge_all(ctx, "C05", &cfg, &out);
    }
    let _: Option<(Bid, VK)> = None;
}

/// Lagging-node scenario on top of a fault-free cluster: one node's all-to-all traffic is held for a few
/// seconds and the adversary feeds it first the finalization of the most recent slot and then the earlier
/// slots' certificates in random order, or only their votes.
pub fn laggard_cfg(rng: &mut SRng, cfg: &mut RunCfg, votes_only: bool) {
    let n = cfg.ep.n();
    let node = rng.random_range(0..n);
    cfg.byz.retain(|b| *b != node);
    cfg.crashes.retain(|c| c.0 != node);
    let from = Duration::from_millis(rng.random_range(2000..4000));
    let until = from + Duration::from_millis(rng.random_range(2500..5000));
    cfg.laggard = Some((node, from, until, votes_only));
    cfg.t_stable = Duration::ZERO;
    cfg.chaos = chaos_profiles()[0].clone();
    cfg.delta = Duration::from_millis(*[10u64, 60].choose(rng).unwrap());
    cfg.duration = until + Duration::from_secs(8);
}

/// C03 at node level: a node assembles (and holds) every certificate that the votes delivered to it justify,
/// also when it lags and is fed the most recent finalization before the earlier slots' votes.
pub fn run_c03_nodes(ctx: &mut Ctx, runs_q: u64, runs_t: u64) {
    let mut rng = ctx.rng("c03-nodes");
    let runs = ctx.iters(runs_q, runs_t);
    for i in 0..runs {
        let mut cfg = base_cfg(&mut rng, ctx.quick(), false, false);
        cfg.byz.clear();
        cfg.crashes.clear();
        cfg.tx_rate = 0;
        laggard_cfg(&mut rng, &mut cfg, i % 3 != 2);
        cfg.label = "c03-laggard".into();
        let out = run_exec(&cfg, &mut rng);
        judge_all(ctx, "C03", &cfg, &out);
    }
}

/// C09 at node level: forged votes that name the receiving node itself as signer (and the other hostile
/// consensus classes) must leave no trace: in particular no correct node may ever broadcast a certificate that
/// fails validation (it would contain a signature its signer never made).
pub fn run_c09_nodes(ctx: &mut Ctx, runs_q: u64, runs_t: u64) {
    let mut rng = ctx.rng("c09-nodes");
    let runs = ctx.iters(runs_q, runs_t);
    for i in 0..runs {
        let mut cfg = base_cfg(&mut rng, ctx.quick(), true, true);
        cfg.chaos = chaos_profiles()[0].clone();
        cfg.t_stable = Duration::ZERO;
        cfg.delta = Duration::from_millis(*[10u64, 80].choose(&mut rng).unwrap());
        cfg.byz_leader = ByzLeader::Silent;
        cfg.tx_rate = 0;
        cfg.duration = Duration::from_secs(if ctx.quick() { 12 } else { 18 });
        // crashed / silent validators make the forged votes matter: the genuine stake alone stays below the thresholds
        let classes: Vec<&'static str> = if i % 2 == 0 { vec!["consensus:forged-vote-naming-the-receiver"] } else { vec!["consensus:forged-vote-naming-the-receiver", "consensus:signer-out-of-range", "consensus:cert-sub-threshold", "consensus:cert-bad-bitmask"] };
        cfg.hostile = Some((Duration::from_secs(1), cfg.duration.mul_f64(0.8), classes));
        cfg.label = "c09-nodes".into();
        let out = run_exec(&cfg, &mut rng);
        ctx.count_n("c09-nodes:hostile-messages", out.hostile_sent.values().sum::<u64>());
        judge_all(ctx, "C09", &cfg, &out);
    }
}

/// C13 at node level: forged copies of genuine shreds (altered payload, proof or signature) for slots of
/// correct leaders must not make a node discredit the leader: in a timely fault-free run nobody skips.
pub fn run_c13_nodes(ctx: &mut Ctx, runs_q: u64, runs_t: u64) {
    let mut rng = ctx.rng("c13-nodes");
    let runs = ctx.iters(runs_q, runs_t);
    for _ in 0..runs {
        let mut cfg = base_cfg(&mut rng, ctx.quick(), false, false);
        cfg.byz.clear();
        cfg.crashes.clear();
        cfg.chaos = chaos_profiles()[0].clone();
        cfg.t_stable = Duration::ZERO;
        cfg.delta = Duration::from_millis(*[5u64, 30].choose(&mut rng).unwrap());
        cfg.tx_rate = 0;
        cfg.duration = Duration::from_secs(if ctx.quick() { 10 } else { 16 });
        cfg.hostile = Some((Duration::from_millis(500), cfg.duration, vec!["shred:forged-copy-of-a-genuine-shred"]));
        cfg.label = "c13-nodes".into();
        let out = run_exec(&cfg, &mut rng);
        ctx.count_n("c13-nodes:forged-shreds-injected", out.hostile_sent.values().sum::<u64>());
        judge_all(ctx, "C13", &cfg, &out);
    }
}

/// C16 at node level: in fault-free executions every shred a leader sends reaches every other validator,
/// through exactly one relay broadcast (the forwarding decision sits in the node's message loop, not in
/// the disseminator alone).
pub fn run_c16_nodes(ctx: &mut Ctx, runs_q: u64, runs_t: u64) {
    let mut rng = ctx.rng("c16-nodes");
    let runs = ctx.iters(runs_q, runs_t);
    for _ in 0..runs {
        let mut cfg = base_cfg(&mut rng, ctx.quick(), false, false);
        cfg.byz.clear();
        cfg.crashes.clear();
        cfg.chaos = chaos_profiles()[0].clone();
        cfg.chaos.max_delay = Duration::from_millis(*[0u64, 5, 30].choose(&mut rng).unwrap());
        cfg.t_stable = Duration::ZERO;
        cfg.delta = cfg.chaos.max_delay;
        cfg.diss = DissKind::Rotor;
        cfg.tx_rate = *[0u32, 20].choose(&mut rng).unwrap();
        cfg.duration = Duration::from_secs(if ctx.quick() { 8 } else { 14 });
        cfg.track_routes = true;
        cfg.label = "c16-nodes".into();
        let out = run_exec(&cfg, &mut rng);
        ctx.eval();
        ctx.count("node-level-executions");
        let n = cfg.ep.n();
        let last_slot = out.routes.keys().map(|k| k.0).max().unwrap_or(0);
        let mut judged = 0u64;
        let mut self_relay = 0u64;
        for ((slot, slice, idx), r) in &out.routes {
            // the run may end in the middle of the last slots' dissemination
            if *slot + 2 > last_slot {
                continue;
            }
            let leader = leader_of(n, *slot);
            judged += 1;
            let senders: BTreeSet<usize> = r.sent.iter().map(|x| x.0).collect();
            let relays: BTreeSet<usize> = senders.iter().copied().filter(|s| *s != leader).collect();
            let leader_targets: BTreeSet<usize> = r.sent.iter().filter(|x| x.0 == leader).map(|x| x.1).collect();
            if leader_targets.len() > 1 || leader_targets.contains(&leader) {
                self_relay += 1;
            }
            let got: BTreeSet<usize> = r.delivered.iter().copied().collect();
            let missing: Vec<usize> = (0..n).filter(|v| *v != leader && !got.contains(v)).collect();
            let wit = json!({"config": cfg.describe(), "shred": [slot, slice, idx], "leader": leader, "sent": r.sent, "delivered": r.delivered});
            if !missing.is_empty() {
                ctx.violation("C16 node level: a shred the leader sent did not reach every other validator in a fault-free run", format!("slot {slot} slice {slice} shred {idx}: never delivered to {missing:?} (leader {leader}, senders {senders:?})"), wit.clone());
            }
            if relays.len() > 1 {
                ctx.violation("C16 node level: more than one relay broadcast for a shred", format!("slot {slot} slice {slice} shred {idx}: relays {relays:?}"), wit);
            }
        }
        ctx.count_n("node-level-shreds-judged", judged);
        ctx.count_n("node-level-shreds-relayed-by-their-leader", self_relay);
        if judged > 0 {
            ctx.distinct(format!("c16n:n{}:{}:d{}:self-relay{}", n, cfg.ep.family, cfg.delta.as_millis(), (self_relay > 0) as u8));
        }
        for p in &out.panics {
            if p.in_repo() {
                ctx.violation(format!("C10 node task {}", p.sig()), format!("{} at {}:{}", p.msg, p.file, p.line), json!({"config": cfg.describe()}));
            }
        }
    }
}

/// C10: hostile input on all five interfaces and Byzantine-signed content never crash or wedge a node.
pub fn run_c10(ctx: &mut Ctx) -> Result<(), String> {
    let mut rng = ctx.rng("c10");
    let runs = ctx.iters(32, 800);
    for i in 0..runs {
        let mut cfg = loop {
            let c = base_cfg(&mut rng, ctx.quick(), true, false);
            if !c.byz.is_empty() && c.ep.n() >= 4 {
                break c;
            }
        };
        cfg.crashes.clear();
        cfg.chaos = chaos_profiles()[0].clone();
        cfg.t_stable = Duration::ZERO;
        cfg.delta = Duration::from_millis(*[5u64, 40, 120].choose(&mut rng).unwrap());
        cfg.duration = Duration::from_secs(if ctx.quick() { 24 } else { 32 });
        cfg.byz_leader = *[ByzLeader::OneBlock, ByzLeader::TwoBlocks, ByzLeader::TwoBlocksLastSlot, ByzLeader::TwoBlocksLastSlot, ByzLeader::Silent].choose(&mut rng).unwrap();
        cfg.tx_rate = *[0u32, 10].choose(&mut rng).unwrap();
        let hostile_end = cfg.duration.mul_f64(0.55);
        let base_duration = cfg.duration;
        // every run mixes a handful of classes; over the shards all classes are covered
        let mut classes: Vec<&'static str> = crate::hostile::CLASSES.to_vec();
        classes.shuffle(&mut rng);
        classes.truncate(rng.random_range(4..=10));
        // directed: every class gets its own run now and then
        if i % 3 == 0 {
            // three neighbouring classes per directed run: one quick run (16 shards) covers every class
            let all = crate::hostile::CLASSES;
            let k = 3 * ((i as usize / 3) * ctx.nshards + ctx.shard) + ctx.seed as usize;
            classes = (0..3).map(|j| all[(k + j) % all.len()]).collect();
        }
        cfg.hostile = Some((Duration::from_secs(2), hostile_end, classes));
        // every fifth run has a lagging node that is fed certificates in an adversarial order
        if i % 5 == 4 || (i as usize + ctx.shard) % 8 == 3 {
            let votes_only = rng.random_bool(0.3);
            laggard_cfg(&mut rng, &mut cfg, votes_only);
            cfg.hostile = None;
            cfg.duration = cfg.duration.max(Duration::from_secs(16));
        }
        // a quarter of the runs start with an asynchronous period (lagging leaders, late finalizations)
        if i % 4 == 1 {
            let mut ch = chaos_profiles();
            ch.remove(0);
            cfg.chaos = ch.choose(&mut rng).unwrap().clone();
            cfg.chaos.loss = 0.0;
            cfg.t_stable = Duration::from_secs(*[6u64, 9].choose(&mut rng).unwrap());
            cfg.duration += Duration::from_secs(8);
            if rng.random_bool(0.5) {
                cfg.hostile = None;
            }
        }
        // a deliberately triggered repair after the hostile phase: one correct node misses a window's shreds
        let correct: Vec<usize> = (0..cfg.ep.n()).filter(|v| !cfg.byz.contains(v)).collect();
        let victim = *correct.choose(&mut rng).unwrap();
        let _ = base_duration;
        let first_slot = ((hostile_end.as_millis() as u64 + 2500) / 400 / 4 + 1) * 4;
        let n = cfg.ep.n() as u64;
        // choose a window led by another correct node
        let mut w = first_slot / 4;
        for _ in 0..2 * n {
            let l = (w % n) as usize;
            if l != victim && !cfg.byz.contains(&l) {
                break;
            }
            w += 1;
        }
        cfg.withhold = Some((victim, (w * 4..w * 4 + 2).collect()));
        cfg.label = "c10".into();
        let out = run_exec(&cfg, &mut rng);
        // C10-specific oracle
        let mut fs: Vec<Finding> = Vec::new();
        // consecutive Byzantine leaders in the rotation each cost a window of timeouts (about 2.6 virtual seconds):
        // with two or more in a row the tail is lengthened accordingly and progress, not a rate, is demanded
        let max_run = {
            let (mut best, mut cur) = (0u32, 0u32);
            for w in 0..2 * cfg.ep.n() {
                if cfg.byz.contains(&(w % cfg.ep.n())) {
                    cur += 1;
                    best = best.max(cur);
                } else {
                    cur = 0;
                }
            }
            best
        };
        let tail = Duration::from_secs(7) + Duration::from_millis(2600) * max_run.saturating_sub(1);
        let need = if max_run >= 2 { 1 } else { 4 };
        let tail_from = cfg.duration.saturating_sub(tail);
        if max_run >= 3 {
            // three or more consecutive Byzantine leaders can occupy the whole tail: what gets finalized there is
            // decided by the adversary's blocks (harness code), not by the nodes under test
            ctx.count("tail-progress-not-judged(3+ consecutive Byzantine leaders)");
        }
        for &v in out.correct.iter().filter(|_| max_run < 3) {
            let at_tail_start = out.samples.iter().filter(|(t, _)| *t >= tail_from).filter_map(|(_, m)| m.get(&v)).next().copied().unwrap_or(0);
            let at_end = out.samples.last().and_then(|(_, m)| m.get(&v)).copied().unwrap_or(0);
            if at_end < at_tail_start + need {
                fs.push(Finding { prop: "C10", sig: "a correct node stopped finalizing after the hostile phase".into(), detail: format!("node {v}: finalized slot {at_tail_start} -> {at_end} in the last {} virtual milliseconds ({max_run} consecutive Byzantine leaders in the rotation)", tail.as_millis()) });
            }
        }
        if out.probe == Some(false) {
            fs.push(Finding { prop: "C10", sig: "repair responder did not answer a probe request after the hostile phase".into(), detail: String::new() });
        }
        if let Some((victim, slots)) = &cfg.withhold {
            // the victim must still finalize the withheld slots (through repair) if the others did
            let fin_of = |v: usize| -> BTreeMap<u64, H32> {
                out.fin_logs.get(&v).map(|l| l.iter().filter_map(|e| if let FinEv::Finalized(b) | FinEv::ImplicitlyFinalized(b) = e { Some((b.0, b.1)) } else { None }).collect()).unwrap_or_default()
            };
            let mine = fin_of(*victim);
            for s in slots {
                let others: BTreeSet<H32> = out.correct.iter().filter(|v| *v != victim).filter_map(|v| fin_of(*v).get(s).copied()).collect();
                if others.len() == 1 && out.correct.contains(victim) {
                    ctx.count("withheld-slots-finalized-by-others");
                    if mine.get(s) != others.iter().next() {
                        fs.push(Finding { prop: "C10", sig: "a node that missed a block's shreds did not catch up through repair".into(), detail: format!("node {victim} slot {s}: {:?}", mine.get(s).map(h32_short_pub)) });
                    } else {
                        ctx.count("withheld-slots-repaired-and-finalized");
                    }
                }
            }
        }
        for (c, k) in &out.hostile_sent {
            ctx.count_n(&format!("hostile:{c}"), *k);
        }
        for r in &out.hostile_roles {
            ctx.distinct(format!("c10:{r}"));
        }
        report(ctx, "C10", &cfg, fs, json!({"hostile_sent": out.hostile_sent, "probe": out.probe}));
        judge_all(ctx, "C10", &cfg, &out);
    }
    Ok(())
}
