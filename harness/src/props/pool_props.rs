//! Shared driver for the pool-level properties C03 C04 C06 C07 C08 C18.

use rand::prelude::*;
use serde_json::json;

use crate::common::{gen_stakes, make_epoch, pick_family};
use crate::evidence::Ctx;
use crate::poolsim::{RunCfg, build_ops, run_ops};
use crate::world::World;

/// C04: every ordered pair and triple of one validator's votes in one slot (five kinds, two blocks), for a
/// validator other than the pool's owner and for the owner itself, each against the decision table.
fn enumerate_vote_sequences(ctx: &mut Ctx) {
    use crate::model::MVote;
    use crate::poolsim::Op;
    use crate::wire::VK;
    let mut rng = ctx.rng("c04-table");
    let stakes = vec![1u64; 5];
    let ep = make_epoch(&mut rng, &stakes, "equal");
    let (ha, hb) = ([0xa1u8; 32], [0xb2u8; 32]);
    let alphabet: Vec<(VK, Option<[u8; 32]>)> = vec![(VK::Notar, Some(ha)), (VK::Notar, Some(hb)), (VK::NotarFallback, Some(ha)), (VK::NotarFallback, Some(hb)), (VK::Skip, None), (VK::SkipFallback, None), (VK::Final, None)];
    let cfg = RunCfg { late_links: false, jitter: 0.0, dup_votes: 0.0, cert_frac: 0.0, block_frac: 0.0, standstill_every: 0, waiters: false, check_bundle_replay: false };
    let mut seqs: Vec<Vec<usize>> = Vec::new();
    for a in 0..alphabet.len() {
        for b in 0..alphabet.len() {
            seqs.push(vec![a, b]);
            for c in 0..alphabet.len() {
                seqs.push(vec![a, b, c]);
            }
        }
    }
    for (i, sq) in seqs.iter().enumerate() {
        if !ctx.mine(i as u64) {
            continue;
        }
        for (own, signer) in [(0usize, 3usize), (3, 3)] {
            let slot = 1 + (i as u64 % 3);
            let ops: Vec<Op> = sq.iter().map(|k| Op::Vote(MVote { signer, kind: alphabet[*k].0, slot, hash: alphabet[*k].1 })).collect();
            run_ops(ctx, "C04", &mut rng, &ep, own, &ops, &cfg, "enumerated-sequences");
            ctx.count("enumerated-vote-sequences");
        }
    }
}

/// C18 far history: the statement quantifies over any finalized slot. The sender's highest finalized slot is
/// pushed beyond two epochs by two hopping fast-finalization certificates (each inside the window that is
/// open at that moment); a receiver starting from an empty state applies its own admission window to the
/// bundle. Whatever this shows is classified like any other report.
fn far_history(ctx: &mut Ctx) {
    use crate::poolsim::Op;
    use crate::wire::CK;
    let mut rng = ctx.rng("c18-far");
    let stakes = vec![1u64; 5];
    let ep = make_epoch(&mut rng, &stakes, "equal");
    let cfg = RunCfg { late_links: false, jitter: 0.0, dup_votes: 0.0, cert_frac: 0.0, block_frac: 0.0, standstill_every: 0, waiters: false, check_bundle_replay: true };
    let all: Vec<usize> = (0..5).collect();
    let e = alpenglow::types::SLOTS_PER_EPOCH;
    for (hop1, hop2) in [(2 * e - 1, 2 * e + 5), (e, 2 * e - 1), (2 * e - 1, 4 * e - 3)] {
        let ops = vec![
            Op::Cert(CK::FastFinal, hop1, Some([0x11; 32]), all.clone(), vec![]),
            Op::Standstill,
            Op::Cert(CK::FastFinal, hop2, Some([0x22; 32]), all.clone(), vec![]),
            Op::Standstill,
        ];
        run_ops(ctx, "C18", &mut rng, &ep, 0, &ops, &cfg, "far-history");
        ctx.count("far-history-runs");
        ctx.distinct(format!("far-history:{}:{}", hop1 / e, hop2 / e));
    }
}

/// C18 doubly certified slots: a slot after the highest finalized one that holds a notarization (or
/// notar-fallback) certificate and a skip certificate at the same time (20 % of the stake voted notar and then
/// skip-fallback). Both are "held for a later slot", so both belong in the bundle; every arrival order.
fn double_cert_slots(ctx: &mut Ctx) {
    use crate::poolsim::Op;
    use crate::wire::CK;
    let mut rng = ctx.rng("c18-double");
    let stakes = vec![1u64; 5];
    let ep = make_epoch(&mut rng, &stakes, "equal");
    let cfg = RunCfg { late_links: false, jitter: 0.0, dup_votes: 0.0, cert_frac: 0.0, block_frac: 0.0, standstill_every: 0, waiters: false, check_bundle_replay: true };
    let all: Vec<usize> = (0..5).collect();
    let h = Some([0x33; 32]);
    for own in [0usize, 2, 4] {
        for (fin, slot) in [(0u64, 2u64), (1, 3), (2, 3)] {
            for block_kind in [CK::Notar, CK::NotarFallback] {
                for skip_first in [false, true] {
                    let block_cert = match block_kind {
                        CK::Notar => Op::Cert(CK::Notar, slot, h, vec![0, 1, 2], vec![]),
                        _ => Op::Cert(CK::NotarFallback, slot, h, vec![0, 1], vec![2]),
                    };
                    let skip_cert = Op::Cert(CK::Skip, slot, None, vec![3, 4], vec![2]);
                    let mut ops = vec![];
                    if fin > 0 {
                        ops.push(Op::Cert(CK::FastFinal, fin, Some([0x11; 32]), all.clone(), vec![]));
                    }
                    if skip_first {
                        ops.extend([skip_cert, Op::Standstill, block_cert]);
                    } else {
                        ops.extend([block_cert, Op::Standstill, skip_cert]);
                    }
                    ops.push(Op::Standstill);
                    run_ops(ctx, "C18", &mut rng, &ep, own, &ops, &cfg, "double-cert");
                    ctx.count("double-cert-runs");
                    ctx.distinct(format!("double-cert:{}:{}:{}", block_kind.name(), skip_first, fin.min(1)));
                }
            }
        }
    }
}

pub fn run(ctx: &mut Ctx, focus: &str, quick_total: u64, thorough_total: u64) -> Result<(), String> {
    if focus == "C04" {
        enumerate_vote_sequences(ctx);
    }
    if focus == "C18" && ctx.shard == 0 {
        far_history(ctx);
        double_cert_slots(ctx);
    }
    let mut rng = ctx.rng("worlds");
    let iters = ctx.iters(quick_total, thorough_total);
    let fams = ["equal", "smallint", "exact5", "exact10", "exact100", "heavy", "whale60", "whale80"];
    for it in 0..iters {
        let n = match rng.random_range(0..12) {
            0 => 1,
            1 => 2,
            2 => 3,
            3..=8 => rng.random_range(4..=8),
            _ => rng.random_range(9..=12),
        };
        let family = pick_family(&mut rng, &fams);
        let stakes = gen_stakes(&mut rng, family, n);
        let ep = make_epoch(&mut rng, &stakes, family);
        let windows = rng.random_range(1..=4);
        let w = World::generate(&mut rng, &ep, windows, 1);
        let cfg = RunCfg {
            late_links: match focus {
                "C08" | "C07" => rng.random_bool(0.4),
                _ => rng.random_bool(0.1),
            },
            jitter: *[0.3, 1.0, 2.5, 6.0, 1e9].choose(&mut rng).unwrap(),
            dup_votes: 0.1,
            cert_frac: *[0.0, 0.2, 0.6, 1.0].choose(&mut rng).unwrap(),
            block_frac: *[0.5, 0.9, 1.0].choose(&mut rng).unwrap(),
            standstill_every: if focus == "C18" { *[1usize, 3, 10].choose(&mut rng).unwrap() } else { 25 },
            waiters: focus == "C07" || rng.random_bool(0.3),
            check_bundle_replay: true,
        };
        let ops = build_ops(&mut rng, &ep, &w, &cfg);
        let out = run_ops(ctx, focus, &mut rng, &ep, w.own, &ops, &cfg, if cfg.late_links { "late-links" } else { "random-world" });
        if cfg.late_links {
            ctx.count("histories:late-links");
        }
        ctx.count("histories");
        ctx.count_n("steps", out.steps as u64);
        if it < 2 && ctx.sample_cap() {
            ctx.sample(json!({"n": n, "family": family, "stakes": stakes, "own": w.own, "byzantine": w.byz, "windows": windows, "jitter": cfg.jitter,
                              "slot_classes": w.class.iter().map(|(s, c)| format!("{s}:{c:?}")).collect::<Vec<_>>(),
                              "first_ops": ops.iter().take(10).map(|o| o.describe()).collect::<Vec<_>>(), "ops": ops.len()}));
        }
    }
    Ok(())
}
