//! C14 Repair stores only data matching the requested hash and cannot be derailed.

use std::collections::BTreeMap;
use std::sync::Arc;
use std::time::Duration;

use alpenglow::consensus::{Blockstore, BlockstoreEvent, BlockstoreImpl, PoolImpl, SharedBlockstore, SharedPool};
use alpenglow::crypto::merkle::{DoubleMerkleProof, DoubleMerkleTree, SliceRoot};
use alpenglow::repair::{Repair, RepairRequest, RepairRequestHandler, RepairRequestType, RepairResponse};
use alpenglow::shredder::{RegularShredder, ShredIndex, Shredder, ValidatedShred};
use alpenglow::types::{Slice, Slot};
use rand::prelude::*;
use serde_json::{Value, json};
use tokio::sync::{RwLock, mpsc};

use crate::common::{Ep, Epoch, SRng, gen_stakes, hex, make_epoch};
use crate::evidence::{Ctx, panics_len, take_panics};
use crate::net::{NetHandle, VerifNet};
use crate::poolsim::{from_bid, to_bid};
use crate::props::c13::{LBlock, SliceSpec, build_block, good_specs, hash32_root};
use crate::props::c15::{RefTree, to_hash};
use crate::wire::*;

type RespNet = VerifNet<RepairResponse, RepairRequest>;
type ReqNet = VerifNet<RepairRequest, RepairResponse>;

#[derive(Clone, Copy, Debug, PartialEq, Eq)]
enum Persona {
    Honest,
    HonestSlow,
    HonestDuplicating,
    NackOnly,
    Silent,
    Hostile,
}

const HOSTILE_MODES: &[&str] = &[
    "invalid-proof", "wrong-root", "wrong-variant", "wrong-indices", "aliased-last-index", "earlier-slice-claimed-last", "unsolicited", "replay-valid", "twin-last-flag", "nack", "garbage", "shred-of-other-slice", "shred-bad-signature",
];

fn proof_of(rt: &RefTree, i: usize) -> DoubleMerkleProof {
    DoubleMerkleProof::from(rt.proof(i).iter().map(to_hash).collect::<Vec<_>>())
}

fn root_of(h: &[u8; 32]) -> SliceRoot {
    SliceRoot::from(to_hash(h))
}

struct Truth {
    blk: LBlock,
    rt: RefTree,
    /// the same slices signed with the opposite last flag (Byzantine leader material)
    twins: Vec<Vec<ValidatedShred>>,
}

impl Truth {
    fn new(blk: LBlock, leader_sk: &alpenglow::crypto::signature::SecretKey) -> Self {
        let leaves: Vec<Vec<u8>> = blk.roots.iter().map(|r| r.to_vec()).collect();
        let rt = RefTree::new(&leaves);
        let mut twins = Vec::new();
        for s in &blk.slices {
            let mut t: Slice = s.clone();
            t.is_last = !t.is_last;
            twins.push(RegularShredder::default().shred(&t, leader_sk).expect("twin").to_vec());
        }
        Self { blk, rt, twins }
    }
    fn id(&self) -> (Slot, alpenglow::crypto::merkle::BlockHash) {
        to_bid(&(self.blk.slot, self.blk.hash))
    }
    fn last(&self) -> usize {
        self.blk.slices.len() - 1
    }
    /// The honest answer to a request (used for replay / unsolicited material).
    fn honest_answer(&self, ty: &RepairRequestType) -> Option<RepairResponse> {
        match ty {
            RepairRequestType::LastSliceRoot(b) if *b == self.id() => Some(RepairResponse::LastSliceRoot(ty.clone(), slice_index(self.last()), root_of(&self.blk.roots[self.last()]), proof_of(&self.rt, self.last()))),
            RepairRequestType::SliceRoot(b, s) if *b == self.id() => {
                let s = slice_no(s);
                (s <= self.last()).then(|| RepairResponse::SliceRoot(ty.clone(), root_of(&self.blk.roots[s]), proof_of(&self.rt, s)))
            }
            RepairRequestType::Shred(b, s, i) if *b == self.id() => {
                let s = slice_no(s);
                (s <= self.last()).then(|| RepairResponse::Shred(ty.clone(), self.blk.shreds[s][i.inner()].as_shred().clone()))
            }
            _ => None,
        }
    }
}

fn slice_no(s: &alpenglow::types::SliceIndex) -> usize {
    u64::from_le_bytes(ser(s).try_into().unwrap()) as usize
}

/// Hostile reaction to a request; returns raw response datagrams.
fn hostile(rng: &mut SRng, t: &Truth, mode: &str, ty: &RepairRequestType, history: &mut Vec<Vec<u8>>) -> Vec<Vec<u8>> {
    let honest = t.honest_answer(ty);
    let mut out: Vec<Vec<u8>> = Vec::new();
    match mode {
        "invalid-proof" => match honest {
            Some(RepairResponse::LastSliceRoot(r, i, root, p)) => {
                let mut v: Vec<_> = p.as_ref().to_vec();
                if v.is_empty() {
                    v.push(alpenglow::crypto::hash(b"x"));
                } else {
                    let k = rng.random_range(0..v.len());
                    v[k] = alpenglow::crypto::hash(b"y");
                }
                out.push(ser(&RepairResponse::LastSliceRoot(r, i, root, v.into())));
            }
            Some(RepairResponse::SliceRoot(r, root, p)) => {
                let mut v: Vec<_> = p.as_ref().to_vec();
                v.push(alpenglow::crypto::hash(b"z"));
                out.push(ser(&RepairResponse::SliceRoot(r, root, v.into())));
            }
            Some(RepairResponse::Shred(r, s)) => {
                let mut p = ShredParts::of(&s);
                if p.proof.is_empty() {
                    p.proof.push([1; 32]);
                } else {
                    p.proof[0][0] ^= 1;
                }
                if let Some(s2) = p.decode() {
                    out.push(ser(&RepairResponse::Shred(r, s2)));
                }
            }
            _ => {}
        },
        "wrong-root" => match honest {
            Some(RepairResponse::LastSliceRoot(r, i, _, p)) => out.push(ser(&RepairResponse::LastSliceRoot(r, i, root_of(&[9u8; 32]), p))),
            Some(RepairResponse::SliceRoot(r, _, p)) => out.push(ser(&RepairResponse::SliceRoot(r, root_of(&[9u8; 32]), p))),
            Some(RepairResponse::Shred(r, s)) => {
                // a genuine shred of a *different* slice under this slice's header: root mismatch
                let mut p = ShredParts::of(&s);
                p.data.push(0);
                p.data.push(0);
                if let Some(s2) = p.decode() {
                    out.push(ser(&RepairResponse::Shred(r, s2)));
                }
            }
            _ => {}
        },
        "wrong-variant" => {
            let root = root_of(&t.blk.roots[0]);
            let proof = proof_of(&t.rt, 0);
            match ty {
                RepairRequestType::LastSliceRoot(_) => out.push(ser(&RepairResponse::SliceRoot(ty.clone(), root, proof))),
                RepairRequestType::SliceRoot(..) => {
                    out.push(ser(&RepairResponse::LastSliceRoot(ty.clone(), slice_index(0), root, proof)));
                    out.push(ser(&RepairResponse::Shred(ty.clone(), t.blk.shreds[0][0].as_shred().clone())));
                }
                RepairRequestType::Shred(..) => out.push(ser(&RepairResponse::SliceRoot(ty.clone(), root, proof))),
            }
        }
        "wrong-indices" => {
            if let RepairRequestType::Shred(_, s, i) = ty {
                let s = slice_no(s).min(t.last());
                let j = (i.inner() + 1 + rng.random_range(0..62)) % 64;
                out.push(ser(&RepairResponse::Shred(ty.clone(), t.blk.shreds[s][j].as_shred().clone())));
                let s2 = (s + 1) % (t.last() + 1);
                out.push(ser(&RepairResponse::Shred(ty.clone(), t.blk.shreds[s2][i.inner()].as_shred().clone())));
            } else if let Some(RepairResponse::SliceRoot(r, _, _)) = &honest {
                // root and proof of another slice
                let o = (slice_no(match ty {
                    RepairRequestType::SliceRoot(_, s) => s,
                    _ => unreachable!(),
                }) + 1)
                    % (t.last() + 1);
                out.push(ser(&RepairResponse::SliceRoot(r.clone(), root_of(&t.blk.roots[o]), proof_of(&t.rt, o))));
            }
        }
        "aliased-last-index" => {
            if let RepairRequestType::LastSliceRoot(_) = ty {
                let h = t.rt.height();
                for k in 0..3 {
                    let idx = t.last() + ((k + 1) << h);
                    if idx < 1024 {
                        out.push(ser(&RepairResponse::LastSliceRoot(ty.clone(), slice_index(idx), root_of(&t.blk.roots[t.last()]), proof_of(&t.rt, t.last()))));
                    }
                }
                // exactly one past the width covered by the proof (2^h), with the material of slice 0 and of the last slice
                let w = 1usize << h;
                if w < 1024 {
                    for src in [0, t.last()] {
                        out.push(ser(&RepairResponse::LastSliceRoot(ty.clone(), slice_index(w), root_of(&t.blk.roots[src]), proof_of(&t.rt, src))));
                    }
                }
            }
        }
        "earlier-slice-claimed-last" => {
            if let RepairRequestType::LastSliceRoot(_) = ty {
                if t.last() > 0 {
                    let e = rng.random_range(0..t.last());
                    out.push(ser(&RepairResponse::LastSliceRoot(ty.clone(), slice_index(e), root_of(&t.blk.roots[e]), proof_of(&t.rt, e))));
                }
            }
        }
        "unsolicited" => {
            let s = rng.random_range(0..=t.last());
            let i = rng.random_range(0..64);
            let fake = RepairRequestType::Shred(t.id(), slice_index(s), ShredIndex::new(i).unwrap());
            out.push(ser(&RepairResponse::Shred(fake, t.blk.shreds[s][i].as_shred().clone())));
            let other_block = (Slot::new(t.blk.slot + 1), t.id().1);
            out.push(ser(&RepairResponse::Nack(RepairRequestType::LastSliceRoot(other_block))));
            // NACKs nobody asked for, naming requests about the true block, then the genuine answer to them
            let s2 = rng.random_range(0..=t.last());
            let i2 = rng.random_range(0..64);
            let named = RepairRequestType::Shred(t.id(), slice_index(s2), ShredIndex::new(i2).unwrap());
            out.push(ser(&RepairResponse::Nack(named.clone())));
            out.push(ser(&RepairResponse::Nack(RepairRequestType::SliceRoot(t.id(), slice_index(s2)))));
            out.push(ser(&RepairResponse::Shred(named, t.blk.shreds[s2][i2].as_shred().clone())));
        }
        "replay-valid" => {
            if let Some(h) = honest {
                let b = ser(&h);
                history.push(b);
            }
            for b in history.iter().rev().take(3) {
                out.push(b.clone());
                out.push(b.clone());
            }
        }
        "twin-last-flag" => {
            if let RepairRequestType::Shred(_, s, i) = ty {
                let s = slice_no(s).min(t.last());
                out.push(ser(&RepairResponse::Shred(ty.clone(), t.twins[s][i.inner()].as_shred().clone())));
            }
        }
        "nack" => out.push(ser(&RepairResponse::Nack(ty.clone()))),
        "garbage" => {
            let n = rng.random_range(0..300);
            out.push((0..n).map(|_| rng.random()).collect());
        }
        "shred-of-other-slice" => {
            if let RepairRequestType::Shred(_, s, i) = ty {
                // shred of another slice re-labelled with this slice index (signature no longer matches)
                let s0 = slice_no(s).min(t.last());
                let o = (s0 + 1) % (t.last() + 1);
                let mut p = ShredParts::of(t.blk.shreds[o][i.inner()].as_shred());
                p.slice_index = s0 as u64;
                if let Some(s2) = p.decode() {
                    out.push(ser(&RepairResponse::Shred(ty.clone(), s2)));
                }
            }
        }
        "shred-bad-signature" => {
            if let Some(RepairResponse::Shred(r, s)) = honest {
                let mut p = ShredParts::of(&s);
                p.sig[5] ^= 0x10;
                if let Some(s2) = p.decode() {
                    out.push(ser(&RepairResponse::Shred(r, s2)));
                }
            }
        }
        _ => {}
    }
    out
}

fn new_blockstore() -> (SharedBlockstore, Arc<RwLock<BlockstoreImpl>>, mpsc::Receiver<BlockstoreEvent>) {
    let (tx, rx) = mpsc::channel(1 << 16);
    let concrete = Arc::new(RwLock::new(BlockstoreImpl::new(tx)));
    let shared: SharedBlockstore = concrete.clone();
    (shared, concrete, rx)
}

async fn requester_run(ctx: &mut Ctx, rng: &mut SRng, directed: Option<&'static str>) {
    let n = if directed.is_some() { 4 } else { *[3usize, 4, 4, 4, 5, 6, 8].choose(rng).unwrap() };
    let fam = *["equal", "smallint", "heavy"].choose(rng).unwrap();
    let stakes = gen_stakes(rng, fam, n);
    let ep = make_epoch(rng, &stakes, "c14");
    let slot = rng.random_range(1..200u64);
    let leader = ((slot / 4) % n as u64) as usize;
    let nslices = if directed.is_some() { rng.random_range(1..=4) } else { *[1usize, 1, 2, 3, 5].choose(rng).unwrap() };
    let sw = rng.random_bool(0.2);
    let specs: Vec<SliceSpec> = good_specs(rng, slot, nslices, sw);
    let truth = Arc::new(Truth::new(build_block(&ep.sks[leader], slot, &specs), &ep.sks[leader]));
    let requester = rng.random_range(0..n);
    // personas
    let mut personas: BTreeMap<usize, (Persona, Vec<&'static str>)> = BTreeMap::new();
    let others: Vec<usize> = (0..n).filter(|v| *v != requester).collect();
    let honest_one = *others.choose(rng).unwrap();
    // one hostile mode per run, so that a failure is attributable to it
    let run_mode: &'static str = directed.unwrap_or(HOSTILE_MODES[rng.random_range(0..HOSTILE_MODES.len())]);
    for &v in &others {
        // directed runs: the adversarially strongest order, every hostile answer overtakes the (slow) honest one
        let p = if directed.is_some() {
            if v == honest_one { Persona::HonestSlow } else { Persona::Hostile }
        } else if v == honest_one {
            *[Persona::Honest, Persona::Honest, Persona::HonestSlow, Persona::HonestDuplicating].choose(rng).unwrap()
        } else {
            *[Persona::Honest, Persona::NackOnly, Persona::Silent, Persona::Hostile, Persona::Hostile, Persona::Hostile, Persona::HonestSlow].choose(rng).unwrap()
        };
        let modes: Vec<&'static str> = if p == Persona::Hostile { vec![run_mode] } else { vec![] };
        personas.insert(v, (p, modes));
    }
    let cfg = json!({"directed": directed, "n": n, "stakes": stakes, "slot": slot, "leader": leader, "slices": nslices, "requester": requester,
                     "personas": personas.iter().map(|(v, (p, m))| format!("{v}:{p:?}{}", if m.is_empty() { String::new() } else { format!("{m:?}") })).collect::<Vec<_>>()});
    let net = NetHandle::new();
    net.0.lock().unwrap().max_datagrams = Some(300_000);
    // slow / duplicating honest personas are realised by the delivery policy
    let slow: Vec<usize> = personas.iter().filter(|(_, (p, _))| *p == Persona::HonestSlow).map(|(v, _)| *v).collect();
    let dup: Vec<usize> = personas.iter().filter(|(_, (p, _))| *p == Persona::HonestDuplicating).map(|(v, _)| *v).collect();
    let slow_ms: u64 = if directed.is_some() { 200 } else { *[30u64, 200, 600, 1400].choose(rng).unwrap() };
    net.set_policy(Box::new(move |d| {
        if d.from.0 == Ep::RepairResp && slow.contains(&d.from.1) {
            vec![Duration::from_millis(slow_ms)]
        } else if d.from.0 == Ep::RepairResp && dup.contains(&d.from.1) {
            vec![Duration::ZERO, Duration::from_millis(3), Duration::from_millis(700)]
        } else {
            vec![Duration::ZERO]
        }
    }));
    // recorder: which request types were issued, and which got a correct answer delivered
    let honest_set: std::collections::BTreeSet<usize> = personas.iter().filter(|(_, (p, _))| matches!(p, Persona::Honest | Persona::HonestSlow | Persona::HonestDuplicating)).map(|(v, _)| *v).collect();
    let issued: Arc<std::sync::Mutex<std::collections::BTreeSet<Vec<u8>>>> = Default::default();
    let beyond: Arc<std::sync::Mutex<Option<usize>>> = Default::default();
    let answered: Arc<std::sync::Mutex<std::collections::BTreeSet<Vec<u8>>>> = Default::default();
    {
        let issued = issued.clone();
        let answered = answered.clone();
        let hs = honest_set.clone();
        let mut c = net.0.lock().unwrap();
        let beyond2 = beyond.clone();
        let true_last = truth.last();
        let true_id = truth.id();
        c.on_send = Some(Box::new(move |d| {
            if d.from == (Ep::RepairReq, requester) {
                if let Some(r) = de_repair_req(&d.bytes) {
                    let ty = repair_request_parts(&r).1;
                    // the requester can only believe in a slice above the true last one if it accepted a
                    // last-slice claim that the block identifier does not prove
                    match &ty {
                        RepairRequestType::SliceRoot(id, s) | RepairRequestType::Shred(id, s, _) if *id == true_id && slice_no(s) > true_last => {
                            beyond2.lock().unwrap().get_or_insert(slice_no(s));
                        }
                        _ => {}
                    }
                    issued.lock().unwrap().insert(ser(&ty));
                }
            }
        }));
        c.on_deliver = Some(Box::new(move |d| {
            if d.to == (Ep::RepairReq, requester) && d.from.0 == Ep::RepairResp && hs.contains(&d.from.1) {
                if let Some(r) = de_repair_resp(&d.bytes) {
                    let ty = match &r {
                        RepairResponse::LastSliceRoot(t, ..) | RepairResponse::SliceRoot(t, ..) | RepairResponse::Shred(t, _) => Some(t),
                        RepairResponse::Nack(_) => None,
                    };
                    if let Some(t) = ty {
                        answered.lock().unwrap().insert(ser(t));
                    }
                }
            }
        }));
    }
    // requester side: real Repair + blockstore + pool
    let (bs, bs_concrete, mut bs_rx) = new_blockstore();
    let (ptx, mut prx) = mpsc::channel(1 << 16);
    let (rtx, rrx) = mpsc::channel(1 << 12);
    let pool: SharedPool = Arc::new(RwLock::new(PoolImpl::new(ep.own(requester), ptx, rtx.clone())));
    let req_net: ReqNet = net.endpoint(Ep::RepairReq, requester);
    let mut repair = Repair::new(bs.clone(), pool.clone(), req_net, ep.own(requester));
    let panics_before = panics_len();
    let handle = tokio::spawn(async move { repair.repair_loop(rrx).await });
    // personas
    let mut harness_eps: BTreeMap<usize, RespNet> = BTreeMap::new();
    let mut honest_tasks = Vec::new();
    for (&v, (p, _)) in &personas {
        let e: RespNet = net.endpoint(Ep::RepairResp, v);
        match p {
            Persona::Honest | Persona::HonestSlow | Persona::HonestDuplicating => {
                let (hbs, hconcrete, hrx) = new_blockstore();
                {
                    let mut w = hconcrete.write().await;
                    for s in &truth.blk.shreds {
                        for sh in s {
                            let _ = w.add_shred_from_dissemination(sh.clone()).await;
                        }
                    }
                }
                let h = RepairRequestHandler::new(ep.own(v), hbs, e);
                honest_tasks.push((tokio::spawn(async move { h.run().await }), hrx));
            }
            _ => {
                harness_eps.insert(v, e);
            }
        }
    }
    rtx.send(truth.id()).await.expect("repair channel");
    let id = truth.id();
    let deadline = Duration::from_secs(if ctx.quick() { 60 } else { 120 });
    let start = tokio::time::Instant::now();
    let mut hostile_budget: BTreeMap<usize, usize> = personas.iter().map(|(v, _)| (*v, rng.random_range(20..400))).collect();
    let mut histories: BTreeMap<usize, Vec<Vec<u8>>> = BTreeMap::new();
    let mut hostile_sent: BTreeMap<String, u64> = BTreeMap::new();
    let mut requests_seen = 0u64;
    let mut completed_at: Option<Duration> = None;
    let mut phases: std::collections::BTreeSet<String> = Default::default();
    // the pool asks again for the same block whenever a further certificate for it arrives: re-trigger the
    // repair of the block in progress at a few random instants
    let mut retriggers: Vec<Duration> = (0..rng.random_range(0..4)).map(|_| Duration::from_millis(rng.random_range(20..1800))).collect();
    retriggers.sort();
    loop {
        tokio::time::sleep(Duration::from_millis(2)).await;
        while retriggers.first().is_some_and(|t| start.elapsed() >= *t) {
            retriggers.remove(0);
            if completed_at.is_none() {
                let _ = rtx.send(truth.id()).await;
                ctx.count("repair-retriggered-while-in-progress");
            }
        }
        // harness personas react to what they received
        for (&v, e) in &harness_eps {
            while let Some(raw) = e.try_receive_raw() {
                let Some(req) = de_repair_req(&raw) else { continue };
                let (_sender, ty) = repair_request_parts(&req);
                requests_seen += 1;
                let (p, modes) = &personas[&v];
                match p {
                    Persona::NackOnly => {
                        // bounded like the hostile personas: every NACK makes the requester re-send at once to
                        // three peers, so two NACKing peers double the traffic per round trip (with the zero
                        // latency of this network that is an unbounded storm in zero virtual time)
                        let left = hostile_budget.get_mut(&v).unwrap();
                        if *left > 0 {
                            *left -= 1;
                            net.send_raw((Ep::RepairResp, v), (Ep::RepairReq, requester), ser(&RepairResponse::Nack(ty.clone())));
                        }
                    }
                    Persona::Silent => {}
                    Persona::Hostile => {
                        let left = hostile_budget.get_mut(&v).unwrap();
                        if *left == 0 {
                            continue;
                        }
                        let mode = modes[rng.random_range(0..modes.len())];
                        let phase = match &ty {
                            RepairRequestType::LastSliceRoot(_) => "awaiting-last-slice-root",
                            RepairRequestType::SliceRoot(..) => "awaiting-slice-root",
                            RepairRequestType::Shred(..) => "awaiting-shred",
                        };
                        let outs = hostile(rng, &truth, mode, &ty, histories.entry(v).or_default());
                        for o in outs {
                            if *left == 0 {
                                break;
                            }
                            *left -= 1;
                            *hostile_sent.entry(mode.to_string()).or_insert(0) += 1;
                            phases.insert(format!("{mode}@{phase}"));
                            // hostile answers may overtake honest ones or arrive late
                            let delay = if directed.is_some() { 0 } else { *[0u64, 0, 1, 50].choose(rng).unwrap() };
                            if delay == 0 {
                                net.send_raw((Ep::RepairResp, v), (Ep::RepairReq, requester), o);
                            } else {
                                let net2 = net.clone();
                                tokio::spawn(async move {
                                    tokio::time::sleep(Duration::from_millis(delay)).await;
                                    net2.send_raw((Ep::RepairResp, v), (Ep::RepairReq, requester), o);
                                });
                            }
                        }
                    }
                    _ => {}
                }
            }
        }
        while prx.try_recv().is_ok() {}
        for (_, hrx) in honest_tasks.iter_mut() {
            while hrx.try_recv().is_ok() {}
        }
        if handle.is_finished() {
            break;
        }
        if bs.read().await.get_block(&id).is_some() {
            completed_at = Some(start.elapsed());
            break;
        }
        if start.elapsed() > deadline {
            break;
        }
    }
    // let late traffic settle, then judge
    tokio::time::sleep(Duration::from_millis(1500)).await;
    ctx.eval();
    ctx.count("requester-runs");
    ctx.count_n("repair-requests-seen-by-personas", requests_seen);
    for (m, c) in &hostile_sent {
        ctx.count_n(&format!("hostile-sent:{m}"), *c);
    }
    for p in &phases {
        ctx.distinct(format!("req:{p}"));
    }
    ctx.distinct(format!("req-shape:n{n}:slices{nslices}:{}", personas.values().map(|(p, _)| format!("{p:?}").chars().take(2).collect::<String>()).collect::<Vec<_>>().join("")));
    let wit = |e: Value| json!({"config": cfg, "hostile_sent": hostile_sent, "completed_after_ms": completed_at.map(|d| d.as_millis() as u64), "detail": e});
    // robustness: the repair task must still be alive
    let new_panics: Vec<_> = take_panics().into_iter().skip(0).collect();
    let repo_panics: Vec<_> = new_panics.iter().filter(|p| p.in_repo()).collect();
    let _ = panics_before;
    if handle.is_finished() || !repo_panics.is_empty() {
        let p = repo_panics.first();
        ctx.violation(
            format!("C14 repair task died {} hostile-mode={}", p.map(|p| p.sig()).unwrap_or_else(|| "without panic record".into()), if hostile_sent.is_empty() { "none" } else { run_mode }),
            p.map(|p| format!("{} at {}:{}", p.msg, p.file, p.line)).unwrap_or_default(),
            wit(json!(null)),
        );
    }
    // integrity: anything stored or announced under the identifier must hash to it
    let mut block_events: Vec<[u8; 32]> = Vec::new();
    while let Ok(e) = bs_rx.try_recv() {
        if let BlockstoreEvent::Block { slot: s, block_info } = e {
            if s.inner() == truth.blk.slot {
                block_events.push(hash32(block_info.verif_hash()));
            }
        }
    }
    {
        let r = bs_concrete.read().await;
        if let Some(b) = r.get_block(&id) {
            let (_, h, p, txs) = b.verif_view();
            let txs_equal = txs.len() == truth.blk.txs.len() && txs.iter().zip(&truth.blk.txs).all(|(a, b)| a.0 == *b);
            if hash32(h) != truth.blk.hash || from_bid(&p) != truth.blk.parent || !txs_equal {
                ctx.violation(
                    format!("C14 block stored under the requested identifier does not hash to it hostile-mode={run_mode}"),
                    format!("stored hash {} requested {} (transactions equal: {txs_equal})", hex(&hash32(h)[..6]), hex(&truth.blk.hash[..6])),
                    wit(json!(null)),
                );
            }
            // stored shreds are the leader's
            for s in 0..=truth.last() {
                for i in [0usize, 17, 40, 63] {
                    let got = r.get_shred(&id, slice_index(s), ShredIndex::new(i).unwrap()).map(|v| ser(v.as_shred()));
                    if got.as_ref() != Some(&truth.blk.bytes[s][i]) {
                        ctx.violation("C14 repaired block serves a shred different from the leader's".to_string(), format!("slice {s} shred {i}"), wit(json!(null)));
                    }
                }
            }
        }
    }
    for h in &block_events {
        if *h != truth.blk.hash {
            ctx.violation("C14 repair announced a block whose hash differs from the requested identifier".to_string(), format!("{} vs {}", hex(&h[..6]), hex(&truth.blk.hash[..6])), wit(json!(null)));
        }
    }
    if net.0.lock().unwrap().capped {
        ctx.count("requester-runs-that-hit-the-datagram-cap");
    }
    if let Some(sl) = *beyond.lock().unwrap() {
        ctx.violation(
            format!("C14 requester asks for a slice beyond the block's last slice (accepted an unproven slice count) hostile-mode={}", if hostile_sent.is_empty() { "none" } else { run_mode }),
            format!("requested slice {sl}, the block has {} slice(s)", truth.last() + 1),
            wit(json!(null)),
        );
    }
    if block_events.len() > 1 {
        ctx.violation("C14 repaired block announced more than once".to_string(), format!("{}", block_events.len()), wit(json!(null)));
    }
    // bounded progress
    match completed_at {
        Some(d) => {
            ctx.count("repairs-completed");
            ctx.count_n("repair-virtual-ms-total", d.as_millis() as u64);
        }
        None if !handle.is_finished() => {
            // judged only if every request type the requester issued had a correct answer delivered to it
            // (peer sampling may miss the honest peers, and retry timers run on std::time::Instant)
            let issued = issued.lock().unwrap().clone();
            let answered = answered.lock().unwrap().clone();
            let unanswered = issued.difference(&answered).count();
            if unanswered == 0 && !issued.is_empty() {
                ctx.violation(
                    format!("C14 repair did not complete although every issued request got a correct answer hostile-mode={}", if hostile_sent.is_empty() { "none" } else { run_mode }),
                    format!("no block after {} virtual seconds; {} request types issued, all answered correctly by honest peers; hostile personas had a bounded budget", deadline.as_secs(), issued.len()),
                    wit(json!({"hostile_budget_left": hostile_budget})),
                );
            } else {
                ctx.count("progress-not-judged(requests never reached an honest peer)");
            }
        }
        None => {}
    }
    handle.abort();
    for (t, _) in honest_tasks {
        t.abort();
    }
    if ctx.sample_cap() {
        ctx.sample(wit(json!("requester run")));
    }
}

// --------------------------------------------------------------------------- responder

async fn responder_run(ctx: &mut Ctx, rng: &mut SRng) {
    let n = rng.random_range(2..=6usize);
    let stakes = gen_stakes(rng, "smallint", n);
    let ep = make_epoch(rng, &stakes, "c14r");
    let me = rng.random_range(0..n);
    let asker = (me + 1) % n;
    let net = NetHandle::new();
    let resp_net: RespNet = net.endpoint(Ep::RepairResp, me);
    let ask_net: ReqNet = net.endpoint(Ep::RepairReq, asker);
    let (bs, concrete, mut rx) = new_blockstore();
    // blocks held: complete via dissemination, complete via repair, incomplete
    let mk = |rng: &mut SRng, slot: u64| {
        let leader = ((slot / 4) % n as u64) as usize;
        let nsl = rng.random_range(1..=4);
        let specs = good_specs(rng, slot, nsl, false);
        (leader, build_block(&ep.sks[leader], slot, &specs))
    };
    let s1 = rng.random_range(1..50);
    let (l1, b1) = mk(rng, s1);
    let s2 = rng.random_range(50..100);
    let (l2, b2) = mk(rng, s2);
    let s3 = rng.random_range(100..150);
    let (_l3, b3) = mk(rng, s3);
    let fill_mode = rng.random_range(0..3);
    {
        let mut w = concrete.write().await;
        // b1 through the node's dissemination path (cache lookup -> validation -> insert), optionally
        // preceded / interleaved with signature-garbled copies that the cache shortcut lets through
        let mut stream: Vec<(bool, Vec<u8>)> = Vec::new();
        for s in &b1.bytes {
            let k = rng.random_range(32..=64);
            let mut idx: Vec<usize> = (0..64).collect();
            idx.shuffle(rng);
            for &i in idx.iter().take(k) {
                stream.push((false, s[i].clone()));
                if fill_mode == 1 && rng.random_bool(0.3) {
                    let mut p = ShredParts::parse(&s[(i + 1) % 64]).unwrap();
                    p.sig = [0u8; 64];
                    stream.push((true, p.encode()));
                }
            }
        }
        if fill_mode == 1 {
            stream.shuffle(rng);
        }
        let pk = ep.validators()[l1].pubkey;
        for (_, bytes) in &stream {
            if let Some(sh) = de_shred(bytes) {
                let p = ShredParts::of(&sh);
                let cached = w.cached_commitment(Slot::new(p.slot), slice_index(p.slice_index as usize));
                if let Ok(v) = ValidatedShred::try_new(sh, cached.as_ref(), &pk) {
                    let _ = w.add_shred_from_dissemination(v).await;
                }
            }
        }
        // b2 via repair path
        for s in &b2.shreds {
            let k = rng.random_range(32..=64);
            for sh in s.sample(rng, k) {
                let _ = w.add_shred_from_repair(to_bid(&(b2.slot, b2.hash)).1, sh.clone()).await;
            }
        }
        // b3 incomplete: some slices short of 32 shreds
        for (si, s) in b3.shreds.iter().enumerate() {
            let k = if si == 0 { rng.random_range(1..32) } else { rng.random_range(0..64) };
            for sh in s.sample(rng, k) {
                let _ = w.add_shred_from_dissemination(sh.clone()).await;
            }
        }
    }
    while rx.try_recv().is_ok() {}
    let handler = RepairRequestHandler::new(ep.own(me), bs.clone(), resp_net);
    let task = tokio::spawn(async move { handler.run().await });
    let have1 = concrete.read().await.get_block(&to_bid(&(b1.slot, b1.hash))).is_some();
    let have2 = concrete.read().await.get_block(&to_bid(&(b2.slot, b2.hash))).is_some();
    let blocks = [(&b1, l1, have1, "disseminated"), (&b2, l2, have2, "repaired")];
    let mut asked = 0;
    for (blk, leader, have, state) in blocks {
        if !have {
            ctx.note("responder fixture block did not complete");
            continue;
        }
        let id = to_bid(&(blk.slot, blk.hash));
        let leaves: Vec<Vec<u8>> = blk.roots.iter().map(|r| r.to_vec()).collect();
        let rt = RefTree::new(&leaves);
        let last = blk.slices.len() - 1;
        let mut reqs: Vec<RepairRequestType> = vec![RepairRequestType::LastSliceRoot(id.clone())];
        for s in 0..=last + 1 {
            if s < 1024 {
                reqs.push(RepairRequestType::SliceRoot(id.clone(), slice_index(s)));
            }
        }
        for s in 0..=last {
            for i in 0..64 {
                reqs.push(RepairRequestType::Shred(id.clone(), slice_index(s), ShredIndex::new(i).unwrap()));
            }
        }
        reqs.push(RepairRequestType::Shred(id.clone(), slice_index(1023), ShredIndex::new(63).unwrap()));
        reqs.push(RepairRequestType::SliceRoot(id.clone(), slice_index(1023)));
        for ty in reqs {
            asked += 1;
            ctx.eval();
            let known_sender = rng.random_bool(0.9);
            let sender = if known_sender { asker as u64 } else { *[n as u64, u64::MAX, 1 << 40].choose(rng).unwrap() };
            let req = repair_request(sender, &ty);
            net.send_raw((Ep::RepairReq, asker), (Ep::RepairResp, me), ser(&req));
            tokio::time::sleep(Duration::from_millis(1)).await;
            let resp = ask_net.try_receive_raw().and_then(|b| de_repair_resp(&b));
            let kind = match &ty {
                RepairRequestType::LastSliceRoot(_) => "last-slice-root",
                RepairRequestType::SliceRoot(..) => "slice-root",
                RepairRequestType::Shred(..) => "shred",
            };
            ctx.distinct(format!("resp:{kind}:{state}:{}", if known_sender { "known" } else { "unknown-sender" }));
            let w = |e: Value| json!({"request": format!("{ty:?}").chars().take(160).collect::<String>(), "block_state": state, "fill_mode": fill_mode, "sender": sender.to_string(), "detail": e});
            if !known_sender {
                if resp.is_some() {
                    ctx.violation("C14 responder answered a request from an unknown sender".to_string(), "", w(json!(null)));
                }
                continue;
            }
            let Some(resp) = resp else {
                ctx.violation(format!("C14 responder sent no answer to a {kind} request from a known validator"), "", w(json!(null)));
                continue;
            };
            let servable = match &ty {
                RepairRequestType::LastSliceRoot(_) => true,
                RepairRequestType::SliceRoot(_, s) => slice_no(s) <= last,
                RepairRequestType::Shred(_, s, _) => slice_no(s) <= last,
            };
            match (&resp, servable) {
                (RepairResponse::Nack(t), false) if *t == ty => ctx.count("responder:nack"),
                (RepairResponse::Nack(_), true) => ctx.violation(format!("C14 responder refused a {kind} request for a block it holds ({state})"), "", w(json!(null))),
                (_, false) => ctx.violation(format!("C14 responder answered a {kind} request it cannot serve with something other than Nack"), format!("{resp:?}").chars().take(100).collect::<String>(), w(json!(null))),
                (RepairResponse::LastSliceRoot(t, idx, root, proof), true) => {
                    ctx.count("responder:last-slice-root");
                    let ok = *t == ty && slice_no(idx) == last && hash32_root(root) == blk.roots[last] && DoubleMerkleTree::check_proof_last(root, last, &id.1, proof) && *proof.as_ref() == *proof_of(&rt, last).as_ref();
                    if !ok {
                        ctx.violation("C14 responder's last-slice-root answer does not verify against the block hash".to_string(), format!("claimed last {} true last {last}", slice_no(idx)), w(json!(null)));
                    }
                }
                (RepairResponse::SliceRoot(t, root, proof), true) => {
                    ctx.count("responder:slice-root");
                    let s = match &ty {
                        RepairRequestType::SliceRoot(_, s) => slice_no(s),
                        _ => usize::MAX,
                    };
                    let ok = *t == ty && s <= last && hash32_root(root) == blk.roots[s] && DoubleMerkleTree::check_proof(root, s, &id.1, proof);
                    if !ok {
                        ctx.violation("C14 responder's slice-root answer does not verify against the block hash".to_string(), "", w(json!(null)));
                    }
                }
                (RepairResponse::Shred(t, shred), true) => {
                    ctx.count("responder:shred");
                    let (s, i) = match &ty {
                        RepairRequestType::Shred(_, s, i) => (slice_no(s), i.inner()),
                        _ => (usize::MAX, usize::MAX),
                    };
                    let p = ShredParts::of(shred);
                    let pk = ep.validators()[leader].pubkey;
                    let valid = ValidatedShred::try_new(shred.clone(), None, &pk).is_ok();
                    let right = *t == ty && p.slot == blk.slot && p.slice_index as usize == s && p.shred_index as usize == i && ref_root_ok(&p, &blk.roots[s]);
                    if !valid || !right {
                        ctx.violation(
                            format!("C14 responder served a shred that does not verify under the leader's key ({}) store-fill={}", if !valid { "signature / proof invalid" } else { "wrong position or root" }, ["genuine-only", "with-signature-garbled-copies-admitted-by-cache-shortcut", "genuine-only-b"][fill_mode]),
                            format!("slice {s} shred {i}; byte-identical to the leader's shred: {}", ser(shred) == blk.bytes[s][i]),
                            w(json!({"signature_hex": hex(&p.sig[..8])})),
                        );
                    }
                }
                _ => {}
            }
        }
    }
    // incomplete block: every request is answered with Nack (known sender)
    let id3 = to_bid(&(b3.slot, b3.hash));
    for ty in [RepairRequestType::LastSliceRoot(id3.clone()), RepairRequestType::SliceRoot(id3.clone(), slice_index(0)), RepairRequestType::Shred(id3.clone(), slice_index(0), ShredIndex::new(0).unwrap())] {
        ctx.eval();
        net.send_raw((Ep::RepairReq, asker), (Ep::RepairResp, me), ser(&repair_request(asker as u64, &ty)));
        tokio::time::sleep(Duration::from_millis(1)).await;
        let resp = ask_net.try_receive_raw().and_then(|b| de_repair_resp(&b));
        ctx.distinct(format!("resp:{}:incomplete", format!("{ty:?}").split('(').next().unwrap_or("")));
        match resp {
            Some(RepairResponse::Nack(t)) if t == ty => ctx.count("responder:nack"),
            other => ctx.violation("C14 responder did not Nack a request about an incomplete block".to_string(), format!("{other:?}").chars().take(120).collect::<String>(), json!({"request": format!("{ty:?}").chars().take(120).collect::<String>()})),
        }
    }
    ctx.count("responder-runs");
    ctx.count_n("responder-requests", asked);
    let ps = take_panics();
    if task.is_finished() || ps.iter().any(|p| p.in_repo()) {
        let p = ps.iter().find(|p| p.in_repo());
        ctx.violation(format!("C14 repair responder task died {}", p.map(|p| p.sig()).unwrap_or_default()), p.map(|p| p.msg.clone()).unwrap_or_default(), json!({"n": n}));
    }
    task.abort();
}

fn ref_root_ok(p: &ShredParts, root: &[u8; 32]) -> bool {
    use crate::props::c15::{ref_leaf, ref_pair};
    let mut node = ref_leaf(&p.data);
    let mut i = p.shred_index;
    for h in &p.proof {
        node = if i % 2 == 0 { ref_pair(&node, h) } else { ref_pair(h, &node) };
        i /= 2;
    }
    node == *root
}

pub fn run(ctx: &mut Ctx) -> Result<(), String> {
    let rt = tokio::runtime::Builder::new_current_thread().enable_all().start_paused(true).build().map_err(|e| e.to_string())?;
    let mut rng = ctx.rng("requester");
    let runs = ctx.iters(160, 8000);
    for i in 0..runs {
        // every other run is a directed one: one hostile mode, hostile answers always first
        let directed = if i % 2 == 0 { Some(HOSTILE_MODES[((i / 2) as usize + ctx.shard * 5) % HOSTILE_MODES.len()]) } else { None };
        rt.block_on(tokio::task::unconstrained(requester_run(ctx, &mut rng, directed)));
        if ctx.violations.len() > 30 {
            break;
        }
    }
    let mut rng = ctx.rng("responder");
    let runs = ctx.iters(96, 4000);
    for _ in 0..runs {
        rt.block_on(tokio::task::unconstrained(responder_run(ctx, &mut rng)));
    }
    Ok(())
}
