//! C19 Wire format: messages round-trip exactly and fit one datagram.

use alpenglow::Transaction;
use alpenglow::consensus::ConsensusMessage;
use alpenglow::crypto::signature::SecretKey;
use alpenglow::network::MTU_BYTES;
use alpenglow::repair::{RepairRequest, RepairRequestType, RepairResponse};
use alpenglow::shredder::{AontShredder, CodingOnlyShredder, PetsShredder, RegularShredder, Shred, ShredIndex, Shredder};
use alpenglow::types::{Slice, Slot};
use rand::prelude::*;
use serde_json::json;

use crate::common::{SRng, bh, hex, make_epoch, mk_rng};
use crate::evidence::{Ctx, guarded};
use crate::wire::*;

#[derive(Clone, Copy, Debug, PartialEq, Eq)]
enum Kind {
    Consensus,
    Shred,
    RepairReq,
    RepairResp,
    Tx,
}

const KINDS: [Kind; 5] = [Kind::Consensus, Kind::Shred, Kind::RepairReq, Kind::RepairResp, Kind::Tx];

/// Removes allocation details (`addr: 0x..`, `capacity: N`) that bitvec prints in Debug output.
fn norm(s: String) -> String {
    let mut out = String::with_capacity(s.len());
    let mut rest = s.as_str();
    loop {
        let a = rest.find("addr: 0x");
        let c = rest.find("capacity: ");
        let (pos, skip_prefix) = match (a, c) {
            (None, None) => break,
            (Some(a), None) => (a, 8),
            (None, Some(c)) => (c, 10),
            (Some(a), Some(c)) => if a < c { (a, 8) } else { (c, 10) },
        };
        out.push_str(&rest[..pos]);
        let tail = &rest[pos + skip_prefix..];
        let end = tail.find(|ch: char| !ch.is_ascii_alphanumeric()).unwrap_or(tail.len());
        rest = &tail[end..];
    }
    out.push_str(rest);
    out
}

/// Decodes `b` as `kind`; on success returns (re-encoded bytes, debug form).
fn decode(kind: Kind, b: &[u8]) -> Option<(Vec<u8>, String)> {
    decode_raw(kind, b).map(|(r, d)| (r, norm(d)))
}

fn decode_raw(kind: Kind, b: &[u8]) -> Option<(Vec<u8>, String)> {
    use alpenglow::network::deserialize;
    match kind {
        Kind::Consensus => deserialize::<ConsensusMessage>(b).ok().map(|m| (ser(&m), format!("{m:?}"))),
        Kind::Shred => deserialize::<Shred>(b).ok().map(|m| (ser(&m), format!("{m:?}"))),
        Kind::RepairReq => deserialize::<RepairRequest>(b).ok().map(|m| (ser(&m), format!("{m:?}"))),
        Kind::RepairResp => deserialize::<RepairResponse>(b).ok().map(|m| (ser(&m), format!("{m:?}"))),
        Kind::Tx => deserialize::<Transaction>(b).ok().map(|m| (ser(&m), format!("{m:?}"))),
    }
}

struct Corpus {
    items: Vec<(Kind, String, Vec<u8>, String)>, // kind, variant label, bytes, debug of the original
}

fn build_corpus(ctx: &mut Ctx, rng: &mut SRng) -> Corpus {
    let n = *[1usize, 2, 5, 63, 64, 65, 130].choose(rng).unwrap();
    let stakes: Vec<u64> = (0..n).map(|_| rng.random_range(1..100)).collect();
    let ep = make_epoch(rng, &stakes, "c19");
    let mut items = Vec::new();
    let slots = [0u64, 1, 4, 17_999, 18_000, u64::MAX - 1, u64::MAX];
    let hashes = [bh(1), alpenglow::crypto::merkle::GENESIS_BLOCK_HASH, bh(rng.random())];
    // votes (all five kinds) with extreme field values
    for k in ALL_VK {
        for _ in 0..3 {
            let slot = *slots.choose(rng).unwrap();
            let h = hashes.choose(rng).unwrap();
            let signer = rng.random_range(0..n);
            let v = sign_vote(&ep, signer, k, slot, Some(h));
            let m = ConsensusMessage::Vote(v);
            items.push((Kind::Consensus, format!("vote:{}:slot-{}", k.name(), slot_class(slot)), ser(&m), norm(format!("{m:?}"))));
            // signer field is free-form on the wire
            let mut p = VoteParts::of(match &m {
                ConsensusMessage::Vote(v) => v,
                _ => unreachable!(),
            });
            p.signer = *[0u64, n as u64, u64::MAX, 1 << 32].choose(rng).unwrap();
            let mut b = 0u32.to_le_bytes().to_vec();
            b.extend(p.encode());
            if let Some((re, dbg)) = decode(Kind::Consensus, &b) {
                items.push((Kind::Consensus, format!("vote:{}:signer-extreme", k.name()), re, dbg));
            }
        }
    }
    // certificates (all five types, one and both halves, threshold-size and full signer sets)
    for ck in ALL_CK {
        for variant in 0..3 {
            let slot = *slots.choose(rng).unwrap();
            let h = hash32(hashes.choose(rng).unwrap());
            let mut ids: Vec<usize> = (0..n).collect();
            ids.shuffle(rng);
            let (f, s): (Vec<usize>, Vec<usize>) = match (ck.mixed(), variant) {
                (true, 0) if n >= 2 => (ids[..n / 2].to_vec(), ids[n / 2..].to_vec()),
                (true, 1) => (vec![], ids.clone()),
                _ => (ids.clone(), vec![]),
            };
            let mut parts = build_cert(&ep, ck, slot, Some(&h), &f, &s);
            if variant == 2 {
                parts.stake = *[0u64, u64::MAX].choose(rng).unwrap();
            }
            if let Some(c) = parts.decode() {
                let m = ConsensusMessage::Cert(c);
                items.push((Kind::Consensus, format!("cert:{}:halves{}:n{}", ck.name(), (parts.a.is_some() as u8) + (parts.b.is_some() as u8), n), ser(&m), norm(format!("{m:?}"))));
            } else {
                ctx.violation("C19 honestly built certificate does not decode", format!("{ck:?}"), json!({"cert": hex(&parts.encode())}));
            }
        }
    }
    // shreds (data and coding) of several payload sizes, from all four shredders
    let sk = SecretKey::new(rng);
    for (si, size) in [0usize, 1, 63, 64, 1000, 32767 - 9, 32751 - 9].iter().enumerate() {
        let slice = Slice { slot: Slot::new(*slots.choose(rng).unwrap()), slice_index: slice_index(*[0usize, 1, 1023].choose(rng).unwrap()), is_last: rng.random_bool(0.5), parent: None, data: vec![7u8; *size] };
        let out = match si % 4 {
            0 => RegularShredder::default().shred(&slice, &sk),
            1 => CodingOnlyShredder::default().shred(&slice, &sk),
            2 => PetsShredder::default().shred(&slice, &sk),
            _ => AontShredder::default().shred(&slice, &sk),
        };
        if let Ok(shreds) = out {
            for i in [0usize, 31, 32, 63] {
                let s = shreds[i].as_shred();
                items.push((Kind::Shred, format!("shred:{}:size{}", if s.is_data() { "data" } else { "coding" }, size), ser(s), norm(format!("{s:?}"))));
                let rt = RepairRequestType::Shred((Slot::new(3), bh(3)), slice_index(5), ShredIndex::new(i).unwrap());
                let r = RepairResponse::Shred(rt, s.clone());
                items.push((Kind::RepairResp, "repair-response:shred".into(), ser(&r), norm(format!("{r:?}"))));
            }
        }
    }
    // repair requests (three kinds) and the remaining responses
    let bid = (Slot::new(*slots.choose(rng).unwrap()), bh(9));
    let tys = [
        RepairRequestType::LastSliceRoot(bid.clone()),
        RepairRequestType::SliceRoot(bid.clone(), slice_index(1023)),
        RepairRequestType::Shred(bid.clone(), slice_index(0), ShredIndex::new(63).unwrap()),
    ];
    for ty in &tys {
        let r = repair_request(*[0u64, 7, u64::MAX].choose(rng).unwrap(), ty);
        items.push((Kind::RepairReq, format!("repair-request:{}", ty_name(ty)), ser(&r), norm(format!("{r:?}"))));
        let nack = RepairResponse::Nack(ty.clone());
        items.push((Kind::RepairResp, "repair-response:nack".into(), ser(&nack), format!("{nack:?}")));
    }
    let proof: alpenglow::crypto::merkle::DoubleMerkleProof = (0..10).map(|i| alpenglow::crypto::hash(&[i])).collect::<Vec<_>>().into();
    let root: alpenglow::crypto::merkle::SliceRoot = alpenglow::crypto::hash(b"r").into();
    let r1 = RepairResponse::LastSliceRoot(tys[0].clone(), slice_index(1023), root.clone(), proof.clone());
    items.push((Kind::RepairResp, "repair-response:last-slice-root".into(), ser(&r1), format!("{r1:?}")));
    let r2 = RepairResponse::SliceRoot(tys[1].clone(), root, proof);
    items.push((Kind::RepairResp, "repair-response:slice-root".into(), ser(&r2), format!("{r2:?}")));
    // transactions
    for len in [0usize, 1, 512, 513, 1492] {
        let t = Transaction(vec![0xab; len]);
        items.push((Kind::Tx, format!("transaction:len{len}"), ser(&t), format!("{t:?}")));
    }
    Corpus { items }
}

fn slot_class(s: u64) -> &'static str {
    match s {
        0 => "zero",
        u64::MAX => "max",
        x if x > u64::MAX / 2 => "huge",
        _ => "normal",
    }
}

fn ty_name(t: &RepairRequestType) -> &'static str {
    match t {
        RepairRequestType::LastSliceRoot(_) => "last-slice-root",
        RepairRequestType::SliceRoot(..) => "slice-root",
        RepairRequestType::Shred(..) => "shred",
    }
}

fn roundtrip(ctx: &mut Ctx, c: &Corpus) {
    for (kind, label, bytes, dbg) in &c.items {
        ctx.eval();
        ctx.distinct(format!("roundtrip:{label}"));
        ctx.count("roundtrip");
        let w = || json!({"kind": format!("{kind:?}"), "variant": label, "bytes": hex(bytes)});
        match guarded(|| decode(*kind, bytes)) {
            Err(p) => ctx.violation(format!("C19 decode {} variant={}", p.sig(), label.split(':').take(2).collect::<Vec<_>>().join(":")), p.msg, w()),
            Ok(None) => ctx.violation(format!("C19 encoded message does not decode variant={}", label.split(':').take(2).collect::<Vec<_>>().join(":")), "", w()),
            Ok(Some((re, d2))) => {
                if re != *bytes {
                    ctx.violation(format!("C19 re-encoding differs from the original bytes variant={}", label.split(':').take(2).collect::<Vec<_>>().join(":")), "", w());
                }
                if d2 != *dbg {
                    ctx.violation(format!("C19 decoded message differs from the original variant={}", label.split(':').take(2).collect::<Vec<_>>().join(":")), format!("{d2} vs {dbg}"), w());
                }
            }
        }
        // trailing bytes are rejected
        for extra in 1..=8usize {
            let mut b = bytes.clone();
            b.extend(std::iter::repeat_n(0u8, extra));
            ctx.eval();
            match guarded(|| decode(*kind, &b)) {
                Err(p) => ctx.violation(format!("C19 decode {}", p.sig()), p.msg, w()),
                Ok(Some(_)) => {
                    ctx.violation(format!("C19 decoder accepted {extra} trailing bytes kind={kind:?}"), label.clone(), w());
                    break;
                }
                Ok(None) => ctx.count("trailing-bytes-rejected"),
            }
        }
        // every strict prefix is rejected or, if accepted, stable (vectors make some prefixes valid)
        for cut in [1usize, 2, 8] {
            if bytes.len() > cut {
                ctx.eval();
                let b = &bytes[..bytes.len() - cut];
                if let Err(p) = guarded(|| decode(*kind, b)) {
                    ctx.violation(format!("C19 decode {}", p.sig()), p.msg, w());
                }
            }
        }
    }
}

fn index_bounds(ctx: &mut Ctx, c: &Corpus, rng: &mut SRng) {
    // shred index >= 64 and slice index >= 1024 must be rejected wherever they occur
    for (kind, label, bytes, _) in &c.items {
        if *kind == Kind::Shred {
            let p = ShredParts::parse(bytes).expect("shred parts");
            for bad in [64u64, 65, 1 << 20, u64::MAX] {
                let mut q = p.clone();
                q.shred_index = bad;
                ctx.eval();
                ctx.distinct(format!("bounds:shred-index:{bad}"));
                match guarded(|| decode(Kind::Shred, &q.encode())) {
                    Err(pn) => ctx.violation(format!("C19 decode {}", pn.sig()), pn.msg, json!({"bytes": hex(&q.encode())})),
                    Ok(Some(_)) => ctx.violation("C19 decoder accepted shred index >= 64", format!("{bad}"), json!({"bytes": hex(&q.encode())})),
                    Ok(None) => ctx.count("out-of-range-index-rejected"),
                }
            }
            for bad in [1024u64, 1025, 1 << 32, u64::MAX] {
                let mut q = p.clone();
                q.slice_index = bad;
                ctx.eval();
                ctx.distinct(format!("bounds:slice-index:{bad}"));
                match guarded(|| decode(Kind::Shred, &q.encode())) {
                    Err(pn) => ctx.violation(format!("C19 decode {}", pn.sig()), pn.msg, json!({"bytes": hex(&q.encode())})),
                    Ok(Some(_)) => ctx.violation("C19 decoder accepted slice index >= 1024", format!("{bad}"), json!({"bytes": hex(&q.encode())})),
                    Ok(None) => ctx.count("out-of-range-index-rejected"),
                }
            }
            // the largest valid indices are accepted
            let mut q = p.clone();
            q.shred_index = 63;
            q.slice_index = 1023;
            ctx.eval();
            if decode(Kind::Shred, &q.encode()).is_none() {
                ctx.violation("C19 decoder rejected the largest valid indices", "", json!({"bytes": hex(&q.encode())}));
            }
        }
        if *kind == Kind::RepairReq && label.ends_with(":shred") {
            // layout: sender 8 | tag 4 | slot 8 | hash 32 | slice 8 | shred 8
            for (off, bad, name) in [(52usize, 1024u64, "slice"), (60, 64, "shred"), (52, u64::MAX, "slice"), (60, u64::MAX, "shred")] {
                let mut b = bytes.clone();
                b[off..off + 8].copy_from_slice(&bad.to_le_bytes());
                ctx.eval();
                ctx.distinct(format!("bounds:repair-request-{name}-index:{bad}"));
                match guarded(|| decode(Kind::RepairReq, &b)) {
                    Err(pn) => ctx.violation(format!("C19 decode {}", pn.sig()), pn.msg, json!({"bytes": hex(&b)})),
                    Ok(Some(_)) => ctx.violation(format!("C19 decoder accepted out-of-range {name} index in a repair request"), format!("{bad}"), json!({"bytes": hex(&b)})),
                    Ok(None) => ctx.count("out-of-range-index-rejected"),
                }
            }
        }
    }
    let _ = rng;
}

fn fuzz(ctx: &mut Ctx, c: &Corpus, rng: &mut SRng, iters: u64) {
    for _ in 0..iters {
        let (kind, label, bytes, _) = &c.items[rng.random_range(0..c.items.len())];
        let mut b = bytes.clone();
        let m = rng.random_range(0..9);
        let mclass = match m {
            0 => {
                let k = rng.random_range(1..4);
                for _ in 0..k {
                    if !b.is_empty() {
                        let i = rng.random_range(0..b.len());
                        b[i] ^= 1 << rng.random_range(0..8);
                    }
                }
                "bitflip"
            }
            1 => {
                b.truncate(rng.random_range(0..=b.len()));
                "truncate"
            }
            2 => {
                let (_, _, other, _) = &c.items[rng.random_range(0..c.items.len())];
                let cut = rng.random_range(0..=b.len());
                let oc = rng.random_range(0..=other.len());
                b.truncate(cut);
                b.extend_from_slice(&other[oc..]);
                "splice"
            }
            3 => {
                // overwrite an aligned 8-byte field with an extreme value (length / index fields)
                if b.len() >= 8 {
                    let off = rng.random_range(0..=b.len() - 8);
                    let v: u64 = *[0u64, 1, 63, 64, 1023, 1024, 2048, 2049, 1 << 31, 1 << 32, u64::MAX, u64::MAX / 8].choose(rng).unwrap();
                    b[off..off + 8].copy_from_slice(&v.to_le_bytes());
                }
                "u64-field-extreme"
            }
            4 => {
                if b.len() >= 4 {
                    let off = if rng.random_bool(0.5) { 0 } else { rng.random_range(0..=b.len() - 4) };
                    let v: u32 = *[0u32, 1, 2, 3, 4, 5, 255, u32::MAX].choose(rng).unwrap();
                    b[off..off + 4].copy_from_slice(&v.to_le_bytes());
                }
                "u32-tag-edit"
            }
            5 => {
                let n = rng.random_range(0..200);
                b = (0..n).map(|_| rng.random()).collect();
                "random-bytes"
            }
            6 => {
                if !b.is_empty() {
                    let i = rng.random_range(0..b.len());
                    let n = rng.random_range(1..9);
                    for _ in 0..n {
                        b.insert(i, rng.random());
                    }
                }
                "insert"
            }
            7 => {
                if b.len() > 2 {
                    let i = rng.random_range(0..b.len() - 1);
                    let n = rng.random_range(1..=(b.len() - i).min(8));
                    b.drain(i..i + n);
                }
                "delete"
            }
            _ => {
                b.extend(std::iter::repeat_n(rng.random::<u8>(), rng.random_range(1..1600)));
                "oversize-tail"
            }
        };
        // offer the bytes to the matching decoder and to one other decoder
        for k in [*kind, KINDS[rng.random_range(0..KINDS.len())]] {
            ctx.eval();
            ctx.count(&format!("fuzz:{mclass}"));
            match guarded(|| decode(k, &b)) {
                Err(p) => {
                    ctx.violation(format!("C19 decode {} decoder={k:?}", p.sig()), format!("{} at {}:{}", p.msg, p.file, p.line), json!({"decoder": format!("{k:?}"), "mutation": mclass, "from": label, "bytes": hex(&b)}));
                }
                Ok(None) => {}
                Ok(Some((re, _))) => {
                    ctx.count("fuzz:decoded-ok");
                    ctx.distinct(format!("fuzz-ok:{k:?}:{mclass}:{:x}", crate::common::fnv(&b) & 0xfff));
                    // stable encoding: decode(re) must succeed and re-encode to re
                    match guarded(|| decode(k, &re)) {
                        Ok(Some((re2, _))) if re2 == re => {}
                        Ok(other) => ctx.violation(
                            format!("C19 re-encoding of a decodable byte string is not stable decoder={k:?}"),
                            format!("second round: {}", if other.is_some() { "different bytes" } else { "does not decode" }),
                            json!({"decoder": format!("{k:?}"), "mutation": mclass, "from": label, "bytes": hex(&b), "reencoded": hex(&re)}),
                        ),
                        Err(p) => ctx.violation(format!("C19 decode {}", p.sig()), p.msg, json!({"bytes": hex(&re)})),
                    }
                }
            }
        }
    }
}

/// Encoded sizes for every validator count 1..=2048.
fn datagram_bound(ctx: &mut Ctx, rng: &mut SRng) {
    let ep = make_epoch(rng, &[1, 1], "size");
    let sig = ser(&individual_sig(&ep, 0, VK::Skip, 1, None));
    let mut sigb = [0u8; SIG_LEN];
    sigb.copy_from_slice(&sig);
    let mut worst = 0usize;
    let mut worst_case = String::new();
    for n in 1..=2048usize {
        if !ctx.mine(n as u64) {
            continue;
        }
        for ck in ALL_CK {
            // all n bits set in both halves: the largest certificate of that type
            let mut a = AggParts { sig: sigb, num_bits: n as u64, words: vec![0; n.div_ceil(64)] };
            for i in 0..n {
                a.set_bit(i, true);
            }
            let parts = CertParts { kind: ck, slot: u64::MAX, hash: Some([0xff; 32]), a: Some(a.clone()), b: if ck.mixed() { Some(a) } else { None }, stake: u64::MAX };
            let enc = parts.encode();
            ctx.eval();
            let Some(c) = parts.decode() else {
                ctx.violation("C19 certificate with n signer bits does not decode", format!("{ck:?} n={n}"), json!({"n": n, "kind": ck.name()}));
                continue;
            };
            let m = ConsensusMessage::Cert(c);
            let sz = ser(&m).len();
            if sz != enc.len() + 4 {
                ctx.violation("C19 certificate size differs after decode", format!("{sz} vs {}", enc.len() + 4), json!({"n": n, "kind": ck.name()}));
            }
            if sz > worst {
                worst = sz;
                worst_case = format!("cert:{}:n{}", ck.name(), n);
            }
            ctx.distinct(format!("size:cert:{}:n{}", ck.name(), n));
            if sz > MTU_BYTES {
                ctx.violation(format!("C19 certificate exceeds one datagram kind={}", ck.name()), format!("n={n}: {sz} bytes"), json!({"n": n, "kind": ck.name(), "size": sz}));
            }
        }
    }
    // one more signer than supported must be refused by the decoder (so no larger cert can circulate)
    if ctx.shard == 0 {
        let n = 2049;
        let mut a = AggParts { sig: sigb, num_bits: n as u64, words: vec![u64::MAX; 33] };
        a.set_bit(2048, true);
        let parts = CertParts { kind: CK::Final, slot: 1, hash: None, a: Some(a), b: None, stake: 1 };
        ctx.eval();
        ctx.distinct("size:cert:over-max-signers-rejected");
        if parts.decode().is_some() {
            ctx.violation("C19 decoder accepted a bitmask above the supported signer maximum", "2049 bits", json!({}));
        }
        // votes
        let h = bh(1);
        for k in ALL_VK {
            let v = sign_vote(&ep, 1, k, u64::MAX, Some(&h));
            let sz = ser(&ConsensusMessage::Vote(v)).len();
            ctx.eval();
            ctx.distinct(format!("size:vote:{}", k.name()));
            if sz > MTU_BYTES {
                ctx.violation("C19 vote exceeds one datagram", format!("{sz}"), json!({"kind": k.name()}));
            }
            worst = worst.max(sz);
        }
        // largest shreds of every shredder, bare and wrapped in a repair response
        let sk = SecretKey::new(rng);
        let mut sizes = Vec::new();
        macro_rules! shred_sizes {
            ($ty:ty, $name:expr) => {{
                let max = <$ty as Shredder>::MAX_DATA_SIZE;
                for payload in [max, max - 1, max - 63, 9] {
                    let slice = Slice { slot: Slot::new(u64::MAX), slice_index: slice_index(1023), is_last: true, parent: None, data: vec![0x55; payload - 9] };
                    match <$ty>::default().shred(&slice, &sk) {
                        Ok(shreds) => {
                            for s in shreds.iter() {
                                let sz = ser(s.as_shred()).len();
                                let rt = RepairRequestType::Shred((Slot::new(u64::MAX), bh(2)), slice_index(1023), ShredIndex::new(63).unwrap());
                                let wrapped = ser(&RepairResponse::Shred(rt, s.as_shred().clone())).len();
                                ctx.eval();
                                sizes.push(($name, payload, sz, wrapped));
                                if sz > MTU_BYTES || wrapped > MTU_BYTES {
                                    ctx.violation(format!("C19 shred exceeds one datagram shredder={}", $name), format!("payload {payload}: shred {sz}, repair response {wrapped}"), json!({"payload": payload}));
                                }
                            }
                            ctx.distinct(format!("size:shred:{}:{}", $name, payload));
                        }
                        Err(e) => ctx.violation(format!("C19 max-size slice refused by {}", $name), format!("{e:?}"), json!({"payload": payload})),
                    }
                }
            }};
        }
        shred_sizes!(RegularShredder, "regular");
        shred_sizes!(CodingOnlyShredder, "coding-only");
        shred_sizes!(PetsShredder, "pets");
        shred_sizes!(AontShredder, "aont");
        let mx = sizes.iter().map(|s| s.3).max().unwrap_or(0);
        ctx.sample(json!({"kind": "datagram-bound", "largest_cert_bytes": worst, "largest_cert_case": worst_case, "largest_repair_shred_response_bytes": mx, "mtu": MTU_BYTES}));
        // repair messages with the longest legal proofs (32 elements)
        let proof: alpenglow::crypto::merkle::DoubleMerkleProof = (0..32u8).map(|i| alpenglow::crypto::hash(&[i])).collect::<Vec<_>>().into();
        let root: alpenglow::crypto::merkle::SliceRoot = alpenglow::crypto::hash(b"r").into();
        let ty = RepairRequestType::LastSliceRoot((Slot::new(u64::MAX), bh(2)));
        let r = RepairResponse::LastSliceRoot(ty.clone(), slice_index(1023), root, proof);
        ctx.eval();
        ctx.distinct("size:repair-response:last-slice-root-32-proof");
        if ser(&r).len() > MTU_BYTES || ser(&repair_request(u64::MAX, &ty)).len() > MTU_BYTES {
            ctx.violation("C19 repair message exceeds one datagram", "", json!({}));
        }
    }
    ctx.count_n("size:largest-cert-bytes-seen", worst as u64);
}

pub fn run(ctx: &mut Ctx) -> Result<(), String> {
    let mut rng = ctx.rng("corpus");
    let rounds = if ctx.quick() { 2 } else { 12 };
    for r in 0..rounds {
        let c = build_corpus(ctx, &mut rng);
        roundtrip(ctx, &c);
        index_bounds(ctx, &c, &mut rng);
        let it = ctx.iters(400_000, 40_000_000) / rounds;
        fuzz(ctx, &c, &mut rng, it);
        if r == 0 && ctx.sample_cap() {
            let (k, l, b, _) = &c.items[rng.random_range(0..c.items.len())];
            ctx.sample(json!({"kind": format!("{k:?}"), "variant": l, "bytes": hex(&b[..b.len().min(96)]), "len": b.len()}));
        }
    }
    let mut rng = mk_rng(ctx.seed, "c19-size");
    datagram_bound(ctx, &mut rng);
    Ok(())
}
