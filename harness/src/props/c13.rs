//! C13 Blockstore rebuilds exactly the disseminated block, once, and flags bad ones.

use std::collections::BTreeSet;

use alpenglow::Transaction;
use alpenglow::consensus::{AddShredError, Blockstore, BlockstoreEvent, BlockstoreImpl};
use alpenglow::crypto::merkle::{DoubleMerkleTree, SliceRoot};
use alpenglow::crypto::signature::SecretKey;
use alpenglow::shredder::{RegularShredder, ShredIndex, Shredder, ValidatedShred};
use alpenglow::types::{Slice, SlicePayload, Slot};
use rand::prelude::*;
use serde_json::{Value, json};
use tokio::sync::mpsc;

use crate::common::{SRng, hex};
use crate::evidence::{Ctx, guarded_async};
use crate::model::{Bid, H32};
use crate::poolsim::{from_bid, to_bid};
use crate::props::c15::{RefTree, to_hash};
use crate::wire::*;

pub struct LBlock {
    pub slot: u64,
    pub slices: Vec<Slice>,
    pub shreds: Vec<Vec<ValidatedShred>>,
    pub bytes: Vec<Vec<Vec<u8>>>,
    pub roots: Vec<H32>,
    pub hash: H32,
    pub parent: Bid,
    pub txs: Vec<Vec<u8>>,
}

pub fn tx_data(txs: &[Vec<u8>]) -> Vec<u8> {
    let mut d = (txs.len() as u64).to_le_bytes().to_vec();
    for t in txs {
        d.extend_from_slice(&(t.len() as u64).to_le_bytes());
        d.extend_from_slice(t);
    }
    d
}

fn gen_txs(rng: &mut SRng, budget: usize) -> Vec<Vec<u8>> {
    let mut out = Vec::new();
    let mut used = 8;
    let n = rng.random_range(0..80);
    for _ in 0..n {
        let l = *[0usize, 1, 40, 512].choose(rng).unwrap();
        if used + 8 + l > budget {
            break;
        }
        let mut t = vec![0u8; l];
        rng.fill_bytes(&mut t);
        used += 8 + l;
        out.push(t);
    }
    out
}

/// Builds a block the way a (possibly Byzantine) leader would: `shape` describes each slice.
pub struct SliceSpec {
    pub parent: Option<Bid>,
    pub is_last: bool,
    pub data: Vec<u8>,
    pub txs: Vec<Vec<u8>>,
}

pub fn build_block(sk: &SecretKey, slot: u64, specs: &[SliceSpec]) -> LBlock {
    let mut sh = RegularShredder::default();
    let mut slices = Vec::new();
    let mut shreds = Vec::new();
    let mut bytes = Vec::new();
    let mut roots = Vec::new();
    let mut txs = Vec::new();
    let mut parent: Option<Bid> = None;
    for (i, sp) in specs.iter().enumerate() {
        let slice = Slice { slot: Slot::new(slot), slice_index: slice_index(i), is_last: sp.is_last, parent: sp.parent.as_ref().map(to_bid), data: sp.data.clone() };
        let s = sh.shred(&slice, sk).expect("slice fits").to_vec();
        roots.push(hash32_root(s[0].slice_root()));
        bytes.push(s.iter().map(|x| ser(x.as_shred())).collect());
        shreds.push(s);
        slices.push(slice);
        txs.extend(sp.txs.iter().cloned());
        if let Some(p) = sp.parent {
            parent = Some(p);
        }
    }
    let leaves: Vec<Vec<u8>> = roots.iter().map(|r| r.to_vec()).collect();
    let hash = RefTree::new(&leaves).root();
    LBlock { slot, slices, shreds, bytes, roots, hash, parent: parent.unwrap_or((0, [0; 32])), txs }
}

pub fn hash32_root(r: &SliceRoot) -> H32 {
    let mut o = [0u8; 32];
    o.copy_from_slice(r.as_ref());
    o
}

pub fn good_specs(rng: &mut SRng, slot: u64, nslices: usize, switch: bool) -> Vec<SliceSpec> {
    let parent: Bid = (rng.random_range(0..slot), crate::common::hash_bytes(&alpenglow::crypto::hash(&slot.to_le_bytes())));
    let switch_at = if switch && nslices > 1 { Some(rng.random_range(1..nslices)) } else { None };
    (0..nslices)
        .map(|i| {
            let p = if i == 0 {
                Some(parent)
            } else if Some(i) == switch_at {
                // the ready parent may be another block of the optimistic parent's own slot (the previous
                // leader equivocated), or a block of any earlier slot
                let ps = if rng.random_bool(0.4) { parent.0 } else { rng.random_range(0..slot) };
                Some((ps, crate::common::hash_bytes(&alpenglow::crypto::hash(&(slot + 1000).to_le_bytes()))))
            } else {
                None
            };
            let overhead = if p.is_some() { 49 } else { 9 };
            let budget = match rng.random_range(0..6) {
                0 => 8,
                1 => 32767 - overhead,
                2 => 2000,
                _ => rng.random_range(8..6000),
            };
            let txs = if budget == 32767 - overhead {
                // completely full slice: one big filler transaction list
                let mut v = Vec::new();
                let mut left = budget - 8;
                while left >= 8 {
                    let l = (left - 8).min(512);
                    v.push(vec![0x5a; l]);
                    left -= 8 + l;
                }
                v
            } else {
                gen_txs(rng, budget)
            };
            SliceSpec { parent: p, is_last: i + 1 == nslices, data: tx_data(&txs), txs }
        })
        .collect()
}

struct Tap {
    bs: BlockstoreImpl,
    rx: mpsc::Receiver<BlockstoreEvent>,
}

impl Tap {
    fn new() -> Self {
        let (tx, rx) = mpsc::channel(1 << 16);
        Self { bs: BlockstoreImpl::new(tx), rx }
    }
    fn drain(&mut self) -> Vec<BlockstoreEvent> {
        let mut v = Vec::new();
        while let Ok(e) = self.rx.try_recv() {
            v.push(e);
        }
        v
    }
}

fn ev_name(e: &BlockstoreEvent) -> String {
    match e {
        BlockstoreEvent::FirstShred(s) => format!("FirstShred({s})"),
        BlockstoreEvent::Block { slot, .. } => format!("Block({slot})"),
        BlockstoreEvent::InvalidBlock(s) => format!("InvalidBlock({s})"),
    }
}

/// Delivery plan: list of (slice, shred index) with duplicates allowed.
fn plan(rng: &mut SRng, nslices: usize, min_per_slice: usize) -> (Vec<(usize, usize)>, &'static str) {
    let mut items: Vec<(usize, usize)> = Vec::new();
    for s in 0..nslices {
        let k = match rng.random_range(0..4) {
            0 => min_per_slice,
            1 => 64,
            _ => rng.random_range(min_per_slice..=64),
        };
        let mut idx: Vec<usize> = (0..64).collect();
        match rng.random_range(0..4) {
            0 => {}
            1 => idx.reverse(),
            _ => idx.shuffle(rng),
        }
        for i in idx.into_iter().take(k) {
            items.push((s, i));
            if rng.random_bool(0.05) {
                items.push((s, i));
            }
        }
    }
    let order = match rng.random_range(0..5) {
        0 => "slice-order",
        1 => {
            items.reverse();
            "reverse"
        }
        2 => {
            // round-robin over slices
            items.sort_by_key(|(s, i)| (*i, *s));
            "interleaved"
        }
        _ => {
            items.shuffle(rng);
            "shuffled"
        }
    };
    (items, order)
}

async fn good_block(ctx: &mut Ctx, rng: &mut SRng, sk: &SecretKey, thorough_big: bool) {
    let slot = rng.random_range(1..10_000u64);
    let nslices = if thorough_big { *[64usize, 200, 1024].choose(rng).unwrap() } else { *[1usize, 1, 2, 3, 4, 6].choose(rng).unwrap() };
    let switch = rng.random_bool(0.35);
    let specs = if nslices > 6 {
        // big blocks: tiny slices
        (0..nslices).map(|i| SliceSpec { parent: if i == 0 { Some((slot - 1, [7u8; 32])) } else { None }, is_last: i + 1 == nslices, data: tx_data(&[]), txs: vec![] }).collect()
    } else {
        good_specs(rng, slot, nslices, switch)
    };
    let blk = build_block(sk, slot, &specs);
    let (items, order) = plan(rng, nslices, 32);
    let mut tap = Tap::new();
    let wit = |extra: Value| json!({"slot": slot, "slices": nslices, "parent_switch": switch, "order": order, "deliveries": items.len(), "slice_payload_bytes": specs.iter().map(|s| s.data.len()).collect::<Vec<_>>(), "extra": extra});
    let mut have: Vec<BTreeSet<usize>> = vec![BTreeSet::new(); nslices];
    let mut first_seen = false;
    let mut block_events = 0;
    let mut ok_some = 0;
    let mut completed_at: Option<usize> = None;
    // a third of the runs mix both ingest paths for the same block: a few of its shreds (never enough to
    // complete a slice) are also filed through the repair path, before, between and after the deliveries
    let mix_repair = rng.random_bool(0.33);
    let mut repair_filed = 0usize;
    for (step, &(s, i)) in items.iter().enumerate() {
        if mix_repair && repair_filed < 20 && rng.random_bool(0.15) {
            let (rs, ri) = (rng.random_range(0..nslices), rng.random_range(0..64usize));
            let r = guarded_async(tap.bs.add_shred_from_repair(to_bid(&(slot, blk.hash)).1, blk.shreds[rs][ri].clone())).await;
            repair_filed += 1;
            ctx.count("good-blocks:shred-filed-through-repair-path");
            match r {
                Err(p) => {
                    ctx.violation(format!("C13 blockstore {}", p.sig()), format!("{} at {}:{}", p.msg, p.file, p.line), wit(json!({"step": step, "path": "repair"})));
                    return;
                }
                Ok(Err(AddShredError::Equivocation | AddShredError::InvalidShred)) => {
                    ctx.violation("C13 correct leader's block flagged invalid", "genuine shred through the repair path", wit(json!({"step": step, "path": "repair"})));
                    return;
                }
                Ok(_) => {}
            }
            // a partial repair never completes anything and must not disturb dissemination's announcements
            let evs = tap.drain();
            if evs.iter().any(|e| matches!(e, BlockstoreEvent::InvalidBlock(_))) {
                ctx.violation("C13 correct leader's block flagged invalid", "InvalidBlock after a genuine shred through the repair path", wit(json!({"step": step, "path": "repair"})));
                return;
            }
        }
        ctx.eval();
        let complete_before = have.iter().all(|h| h.len() >= 32);
        let dup = have[s].contains(&i);
        have[s].insert(i);
        let complete_after = have.iter().all(|h| h.len() >= 32);
        let r = guarded_async(tap.bs.add_shred_from_dissemination(blk.shreds[s][i].clone())).await;
        let evs = tap.drain();
        let r = match r {
            Err(p) => {
                ctx.violation(format!("C13 blockstore {}", p.sig()), format!("{} at {}:{}", p.msg, p.file, p.line), wit(json!({"step": step})));
                return;
            }
            Ok(r) => r,
        };
        let names: Vec<String> = evs.iter().map(ev_name).collect();
        let w = |e: Value| wit(json!({"step": step, "slice": s, "shred": i, "result": format!("{:?}", r.as_ref().map(|o| o.is_some())), "events": names, "detail": e}));
        // first shred announced exactly once, with the first delivery
        let fs = evs.iter().filter(|e| matches!(e, BlockstoreEvent::FirstShred(_))).count();
        if (step == 0) != (fs == 1) || fs > 1 {
            ctx.violation("C13 FirstShred not announced exactly once with the first shred", format!("step {step}: {fs} FirstShred events"), w(json!(null)));
        }
        first_seen |= fs > 0;
        let be: Vec<&BlockstoreEvent> = evs.iter().filter(|e| matches!(e, BlockstoreEvent::Block { .. })).collect();
        block_events += be.len();
        if evs.iter().any(|e| matches!(e, BlockstoreEvent::InvalidBlock(_))) || matches!(r, Err(AddShredError::Equivocation | AddShredError::InvalidShred)) {
            ctx.violation("C13 correct leader's block flagged invalid", format!("{r:?} {names:?}"), w(json!(null)));
            return;
        }
        let now_complete = !complete_before && complete_after;
        match &r {
            Ok(Some(info)) => {
                ok_some += 1;
                if !now_complete {
                    ctx.violation("C13 block announced before every slice had 32 shreds", "", w(json!(null)));
                }
                completed_at = Some(step);
                if hash32(info.verif_hash()) != blk.hash || from_bid(info.verif_parent()) != blk.parent {
                    ctx.violation(
                        "C13 reconstructed block has a different hash or parent than the leader's",
                        format!("hash equal: {}, parent {:?} want {:?}", hash32(info.verif_hash()) == blk.hash, from_bid(info.verif_parent()).0, blk.parent.0),
                        w(json!(null)),
                    );
                    return;
                }
                if be.len() != 1 {
                    ctx.violation("C13 Ok(Some(info)) returned without exactly one Block event", format!("{}", be.len()), w(json!(null)));
                }
            }
            Ok(None) => {
                if now_complete {
                    ctx.violation("C13 block not reconstructed when every slice had 32 shreds", "", w(json!(null)));
                    return;
                }
                if !be.is_empty() {
                    ctx.violation("C13 Block event without Ok(Some(info))", "", w(json!(null)));
                }
            }
            Err(AddShredError::Duplicate) => {
                if !dup {
                    // after reconstruction the missing shreds were regenerated: delivering one is a duplicate
                    if completed_at.is_none() && have[s].len() <= 32 {
                        ctx.violation("C13 fresh shred refused as duplicate", "", w(json!(null)));
                    }
                }
            }
            Err(e) => {
                ctx.violation(format!("C13 genuine shred refused with {e:?}"), "", w(json!(null)));
            }
        }
    }
    ctx.count("good-blocks");
    ctx.distinct(format!("good:slices{}:{}:{}:{}:{:x}", nslices.min(7), order, if switch { "switch" } else { "noswitch" }, if repair_filed > 0 { "mixed-paths" } else { "dissemination" }, crate::common::fnv(&ser_plan(&items)) & 0xff));
    if !first_seen || block_events != 1 || ok_some != 1 {
        ctx.violation("C13 block not announced exactly once", format!("FirstShred seen {first_seen}, Block events {block_events}, Ok(Some) returns {ok_some}"), wit(json!(null)));
        return;
    }
    // ---- afterwards: content and serving
    let id = to_bid(&(slot, blk.hash));
    let Some(b) = tap.bs.get_block(&id) else {
        ctx.violation("C13 get_block does not return the reconstructed block", "", wit(json!(null)));
        return;
    };
    let (vslot, vhash, vparent, vtxs) = b.verif_view();
    let txs_equal = vtxs.len() == blk.txs.len() && vtxs.iter().zip(&blk.txs).all(|(a, b)| a.0 == *b);
    ctx.eval();
    if vslot.inner() != slot || hash32(vhash) != blk.hash || from_bid(&vparent) != blk.parent || !txs_equal {
        ctx.violation("C13 stored block content differs from the leader's", format!("transactions equal: {txs_equal} ({} vs {})", vtxs.len(), blk.txs.len()), wit(json!(null)));
    }
    if tap.bs.disseminated_block_hash(Slot::new(slot)).map(hash32) != Some(blk.hash) {
        ctx.violation("C13 disseminated_block_hash differs", "", wit(json!(null)));
    }
    if tap.bs.get_last_slice_index(&id) != Some(slice_index(nslices - 1)) {
        ctx.violation("C13 get_last_slice_index differs", "", wit(json!(null)));
    }
    let check_slices: Vec<usize> = if nslices > 8 { vec![0, 1, nslices / 2, nslices - 2, nslices - 1] } else { (0..nslices).collect() };
    for &s in &check_slices {
        ctx.eval();
        let si = slice_index(s);
        match tap.bs.get_slice_root(&id, si) {
            Some(r) if hash32_root(&r) == blk.roots[s] => {
                let proof = tap.bs.create_double_merkle_proof(&id, si);
                let ok = proof.as_ref().is_some_and(|p| DoubleMerkleTree::check_proof(&r, s, &id.1, p));
                let last_ok = proof.as_ref().is_some_and(|p| DoubleMerkleTree::check_proof_last(&r, s, &id.1, p));
                if !ok || last_ok != (s + 1 == nslices) {
                    ctx.violation("C13 double-Merkle proof of a stored slice does not verify as expected", format!("slice {s}: proof ok {ok}, last-leaf check {last_ok}"), wit(json!(null)));
                }
            }
            other => ctx.violation("C13 get_slice_root differs from the leader's slice root", format!("slice {s}: {}", other.is_some()), wit(json!(null))),
        }
        for i in 0..64 {
            let got = tap.bs.get_shred(&id, si, ShredIndex::new(i).unwrap()).map(|v| ser(v.as_shred()));
            if got.as_ref() != Some(&blk.bytes[s][i]) {
                ctx.violation(
                    "C13 served shred differs from the leader's shred",
                    format!("slice {s} shred {i}: {} (delivered: {})", if got.is_none() { "missing" } else { "different bytes" }, have[s].contains(&i)),
                    wit(json!(null)),
                );
                return;
            }
        }
        ctx.count_n("served-shreds-compared", 64);
    }
    // late genuine shreds change nothing
    for _ in 0..8 {
        let s = rng.random_range(0..nslices);
        let i = rng.random_range(0..64);
        let r = tap.bs.add_shred_from_dissemination(blk.shreds[s][i].clone()).await;
        let evs = tap.drain();
        ctx.eval();
        if !evs.is_empty() || matches!(r, Ok(Some(_))) || matches!(r, Err(AddShredError::Equivocation | AddShredError::InvalidShred)) {
            ctx.violation("C13 late genuine shred after completion produced an event or a flag", format!("{r:?} {:?}", evs.iter().map(ev_name).collect::<Vec<_>>()), wit(json!(null)));
        }
    }
    // ---- leader fast path stores the same block
    if nslices <= 6 || rng.random_bool(0.2) {
        let mut own = Tap::new();
        let mut last = None;
        for s in 0..nslices {
            let sl = &blk.slices[s];
            let mut pb = ser(&sl.parent);
            pb.extend_from_slice(&ser(&sl.data));
            let Ok(payload) = SlicePayload::try_from(pb.as_slice()) else {
                ctx.note("could not rebuild SlicePayload from bytes");
                return;
            };
            let arr: Box<[ValidatedShred; 64]> = match blk.shreds[s].clone().try_into() {
                Ok(a) => Box::new(a),
                Err(_) => return,
            };
            let r = guarded_async(own.bs.add_own_slice(payload, arr)).await;
            match r {
                Err(p) => {
                    ctx.violation(format!("C13 add_own_slice {}", p.sig()), p.msg, wit(json!(null)));
                    return;
                }
                Ok(x) => last = x,
            }
        }
        ctx.eval();
        let evs = own.drain();
        let names: Vec<String> = evs.iter().map(ev_name).collect();
        let fs = evs.iter().filter(|e| matches!(e, BlockstoreEvent::FirstShred(_))).count();
        let bl = evs.iter().filter(|e| matches!(e, BlockstoreEvent::Block { .. })).count();
        if fs != 1 || bl != 1 || last.as_ref().map(|i| hash32(i.verif_hash())) != Some(blk.hash) || last.as_ref().map(|i| from_bid(i.verif_parent())) != Some(blk.parent) {
            ctx.violation("C13 leader fast path announces a different block than a follower reconstructs", format!("{names:?}"), wit(json!(null)));
            return;
        }
        let ob = own.bs.get_block(&id).map(|b| {
            let (_, h, p, t) = b.verif_view();
            (hash32(h), from_bid(&p), t.iter().map(|x| x.0.clone()).collect::<Vec<_>>())
        });
        if ob != Some((blk.hash, blk.parent, blk.txs.clone())) {
            ctx.violation("C13 leader fast path stores a different block than a follower reconstructs", "", wit(json!(null)));
        }
        for &s in &check_slices {
            for i in [0usize, 31, 32, 63] {
                let a = own.bs.get_shred(&id, slice_index(s), ShredIndex::new(i).unwrap()).map(|v| ser(v.as_shred()));
                if a.as_ref() != Some(&blk.bytes[s][i]) {
                    ctx.violation("C13 leader fast path serves different shreds", "", wit(json!(null)));
                }
            }
        }
        ctx.count("own-slice-paths");
    }
    if ctx.sample_cap() {
        ctx.sample(wit(json!({"block_hash": hex(&blk.hash[..8]), "transactions": blk.txs.len()})));
    }
}

fn ser_plan(items: &[(usize, usize)]) -> Vec<u8> {
    items.iter().flat_map(|(s, i)| [*s as u8, *i as u8]).collect()
}

#[derive(Clone, Copy, Debug, PartialEq, Eq)]
enum Bad {
    ConflictingSlice,
    TwoLastMarkers,
    SliceBeyondLast,
    UndecodableData,
    FirstSliceNoParent,
    ParentSwitchedTwice,
    ParentSwitchedToItself,
    ParentNotEarlier,
    SwitchedParentNotEarlier,
}

const BADS: [Bad; 9] = [
    Bad::ConflictingSlice,
    Bad::TwoLastMarkers,
    Bad::SliceBeyondLast,
    Bad::UndecodableData,
    Bad::FirstSliceNoParent,
    Bad::ParentSwitchedTwice,
    Bad::ParentSwitchedToItself,
    Bad::ParentNotEarlier,
    Bad::SwitchedParentNotEarlier,
];

async fn bad_block(ctx: &mut Ctx, rng: &mut SRng, sk: &SecretKey, bad: Bad) {
    let slot = rng.random_range(2..10_000u64);
    let nslices = rng.random_range(if matches!(bad, Bad::ParentSwitchedTwice) { 3 } else if matches!(bad, Bad::TwoLastMarkers | Bad::SliceBeyondLast | Bad::ParentSwitchedToItself | Bad::SwitchedParentNotEarlier) { 2 } else { 1 }..=4usize);
    let mut specs = good_specs(rng, slot, nslices, false);
    // `extra` = shreds of an additional signed slice version (slice index, version shreds)
    let mut extra: Option<(usize, Vec<ValidatedShred>)> = None;
    let mut marker_pair: Option<(usize, usize)> = None; // (slice marked last, slice beyond it)
    match bad {
        Bad::ConflictingSlice => {
            let k = rng.random_range(0..nslices);
            let mut alt = SliceSpec { parent: specs[k].parent, is_last: specs[k].is_last, data: tx_data(&[vec![1, 2, 3]]), txs: vec![vec![1, 2, 3]] };
            if alt.data == specs[k].data {
                alt.data = tx_data(&[vec![9]]);
            }
            let slice = Slice { slot: Slot::new(slot), slice_index: slice_index(k), is_last: alt.is_last, parent: alt.parent.as_ref().map(to_bid), data: alt.data.clone() };
            extra = Some((k, RegularShredder::default().shred(&slice, sk).unwrap().to_vec()));
        }
        Bad::TwoLastMarkers => {
            let k = rng.random_range(0..nslices - 1);
            specs[k].is_last = true;
            marker_pair = Some((k, nslices - 1));
        }
        Bad::SliceBeyondLast => {
            let k = rng.random_range(0..nslices - 1);
            specs[k].is_last = true;
            specs[nslices - 1].is_last = false;
            marker_pair = Some((k, nslices - 1));
        }
        Bad::UndecodableData => {
            let k = rng.random_range(0..nslices);
            specs[k].data = match rng.random_range(0..3) {
                0 => vec![0xff; 9],
                1 => {
                    let mut d = tx_data(&[vec![1, 2]]);
                    d.push(0);
                    d
                }
                _ => (5u64).to_le_bytes().to_vec(),
            };
        }
        Bad::FirstSliceNoParent => specs[0].parent = None,
        Bad::ParentSwitchedTwice => {
            specs[1].parent = Some((slot - 1, [1u8; 32]));
            specs[2].parent = Some((slot - 1, [2u8; 32]));
        }
        Bad::ParentSwitchedToItself => {
            let k = rng.random_range(1..nslices);
            specs[k].parent = specs[0].parent;
        }
        Bad::ParentNotEarlier => {
            specs[0].parent = Some((slot + rng.random_range(0..5), [3u8; 32]));
        }
        Bad::SwitchedParentNotEarlier => {
            let k = rng.random_range(1..nslices);
            specs[k].parent = Some((slot + rng.random_range(0..5), [4u8; 32]));
        }
    }
    for sp in specs.iter_mut() {
        let overhead = if sp.parent.is_some() { 49 } else { 9 };
        if overhead + sp.data.len() > 32767 {
            sp.txs = vec![vec![7u8; 100]];
            sp.data = tx_data(&sp.txs);
        }
    }
    let blk = build_block(sk, slot, &specs);
    let (mut items, order) = plan(rng, nslices, 32);
    // splice the extra version's shreds into the plan: encoded as slice index + 1000
    if let Some((k, _)) = &extra {
        let n = rng.random_range(1..=40);
        let mut idx: Vec<usize> = (0..64).collect();
        idx.shuffle(rng);
        for i in idx.into_iter().take(n) {
            let pos = rng.random_range(0..=items.len());
            items.insert(pos, (1000 + k, i));
        }
    }
    let mut tap = Tap::new();
    let wit = |e: Value| json!({"bad": format!("{bad:?}"), "slot": slot, "slices": nslices, "order": order, "last_flags": specs.iter().map(|s| s.is_last).collect::<Vec<_>>(), "parents": specs.iter().map(|s| s.parent.map(|p| p.0)).collect::<Vec<_>>(), "extra": e});
    let mut invalid_events = 0usize;
    let mut block_events = 0usize;
    let mut block_after_invalid = false;
    let mut seen_a = false;
    let mut seen_b = false;
    let mut evidence_step: Option<usize> = None;
    let mut invalid_step: Option<usize> = None;
    let mut trace: Vec<Value> = Vec::new();
    for (step, &(s, i)) in items.iter().enumerate() {
        ctx.eval();
        let (sh, sreal, is_extra) = if s >= 1000 { (extra.as_ref().unwrap().1[i].clone(), s - 1000, true) } else { (blk.shreds[s][i].clone(), s, false) };
        // evidence bookkeeping for the equivocation-type classes
        match bad {
            Bad::ConflictingSlice => {
                let k = extra.as_ref().unwrap().0;
                if sreal == k {
                    if is_extra { seen_b = true } else { seen_a = true }
                }
            }
            Bad::TwoLastMarkers | Bad::SliceBeyondLast => {
                let (k, j) = marker_pair.unwrap();
                if sreal == k {
                    seen_a = true;
                }
                if sreal > k {
                    seen_b = true;
                    let _ = j;
                }
            }
            _ => {}
        }
        if seen_a && seen_b && evidence_step.is_none() {
            evidence_step = Some(step);
        }
        let r = guarded_async(tap.bs.add_shred_from_dissemination(sh)).await;
        let evs = tap.drain();
        let r = match r {
            Err(p) => {
                ctx.violation(format!("C13 blockstore {} bad={bad:?}", p.sig()), format!("{} at {}:{}", p.msg, p.file, p.line), wit(json!({"trace": trace})));
                return;
            }
            Ok(r) => r,
        };
        if trace.len() < 300 {
            trace.push(json!({"slice": sreal, "shred": i, "other_version": is_extra, "result": format!("{:?}", r.as_ref().map(|o| o.is_some())), "events": evs.iter().map(ev_name).collect::<Vec<_>>()}));
        }
        for e in &evs {
            match e {
                BlockstoreEvent::InvalidBlock(_) => {
                    invalid_events += 1;
                    invalid_step.get_or_insert(step);
                }
                BlockstoreEvent::Block { .. } => {
                    block_events += 1;
                    if invalid_events > 0 {
                        block_after_invalid = true;
                    }
                }
                _ => {}
            }
        }
    }
    ctx.count(&format!("bad-blocks:{bad:?}"));
    let pos = match (evidence_step, items.len()) {
        (Some(e), n) if e * 3 < n => "early",
        (Some(e), n) if e * 3 < 2 * n => "middle",
        (Some(_), _) => "late",
        (None, _) => "at-completion",
    };
    ctx.distinct(format!("bad:{bad:?}:{order}:{pos}:slices{nslices}"));
    if invalid_events != 1 {
        ctx.violation(
            format!("C13 malformed or equivocating block announced invalid {} times bad={bad:?}", if invalid_events == 0 { "0" } else { ">1" }),
            format!("after all shreds were delivered: {invalid_events} InvalidBlock, {block_events} Block events (evidence complete at delivery {evidence_step:?} of {})", items.len()),
            wit(json!({"trace": trace})),
        );
        return;
    }
    if block_after_invalid || block_events > 1 {
        ctx.violation(format!("C13 block announced after the slot was flagged invalid or announced twice bad={bad:?}"), format!("{block_events} Block events"), wit(json!({"trace": trace})));
    }
    if let (Some(e), Some(i)) = (evidence_step, invalid_step) {
        if i > e {
            ctx.violation(format!("C13 invalid block announced later than the revealing shred bad={bad:?}"), format!("evidence at delivery {e}, InvalidBlock at {i}"), wit(json!({"trace": trace})));
        }
    }
    if !matches!(bad, Bad::ConflictingSlice | Bad::TwoLastMarkers | Bad::SliceBeyondLast) && block_events > 0 {
        ctx.violation(format!("C13 malformed block announced as a block bad={bad:?}"), "", wit(json!({"trace": trace})));
    }
}

pub fn run(ctx: &mut Ctx) -> Result<(), String> {
    let rt = tokio::runtime::Builder::new_current_thread().enable_all().start_paused(true).build().map_err(|e| e.to_string())?;
    let mut rng = ctx.rng("blocks");
    let sk = SecretKey::new(&mut rng);
    let n_good = ctx.iters(640, 40_000);
    for _ in 0..n_good {
        rt.block_on(tokio::task::unconstrained(good_block(ctx, &mut rng, &sk, false)));
    }
    if !ctx.quick() {
        let big = ctx.iters(0, 32);
        for _ in 0..big {
            rt.block_on(tokio::task::unconstrained(good_block(ctx, &mut rng, &sk, true)));
        }
    }
    let n_bad = ctx.iters(1280, 60_000);
    for k in 0..n_bad {
        let bad = BADS[(k as usize + ctx.shard) % BADS.len()];
        rt.block_on(tokio::task::unconstrained(bad_block(ctx, &mut rng, &sk, bad)));
    }
    let _ = Transaction(vec![]);
    crate::props::cluster_props::run_c13_nodes(ctx, 16, 320);
    Ok(())
}
