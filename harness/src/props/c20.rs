//! C20 Execution state: persistent map semantics, fork isolation, content commitment,
//! placeholder engine determinism.

use std::collections::BTreeMap;

use alpenglow::Transaction;
use alpenglow::crypto::merkle::{BlockHash, GENESIS_BLOCK_HASH};
use alpenglow::execution::commitment::LtHash;
use alpenglow::execution::state::{Address, State};
use alpenglow::execution::{DummyExecution, ExecutionEngine, ExecutionEvent, InProgressBlock, StateCommitment};
use alpenglow::types::Slot;
use rand::prelude::*;
use serde_json::{Value, json};
use sha2::{Digest, Sha256};

use crate::common::{SRng, hex};
use crate::evidence::{Ctx, guarded};
use crate::props::c15::to_hash;

/// Keys with adversarially long shared prefixes: each new key copies `p` leading bits of an
/// existing key (p in 5-bit steps and off-boundary), flips bit p and randomises the rest.
fn gen_keys(rng: &mut SRng, count: usize) -> (Vec<Address>, Vec<usize>) {
    let mut keys: Vec<Address> = Vec::new();
    let mut depths = Vec::new();
    let mut first = [0u8; 32];
    rng.fill_bytes(&mut first);
    keys.push(first);
    depths.push(0);
    while keys.len() < count {
        let base = keys[rng.random_range(0..keys.len())];
        let p: usize = match rng.random_range(0..10) {
            0 => 0,
            1 => 255,
            2 => 250,
            3 => 5 * rng.random_range(0..52),
            4 => (5 * rng.random_range(0..51) + rng.random_range(1..5)).min(255),
            5 => rng.random_range(200..256),
            6 => rng.random_range(0..16),
            _ => rng.random_range(0..256),
        };
        let mut k = base;
        // flip bit p (big-endian bit numbering), randomise everything after it
        k[p / 8] ^= 0x80 >> (p % 8);
        if rng.random_bool(0.7) {
            for b in (p + 1)..256 {
                if rng.random_bool(0.5) {
                    k[b / 8] ^= 0x80 >> (b % 8);
                }
            }
        }
        if !keys.contains(&k) {
            keys.push(k);
            depths.push(p);
        }
    }
    (keys, depths)
}

fn depth_class(p: usize) -> &'static str {
    match p {
        0..=4 => "d0",
        5..=24 => "d1-4",
        25..=99 => "d5-19",
        100..=199 => "d20-39",
        200..=249 => "d40-49",
        _ => "d50-51",
    }
}

struct Fork {
    state: State,
    model: BTreeMap<Address, Vec<u8>>,
    lt: LtHash,
    lineage: u32,
}

fn recompute(model: &BTreeMap<Address, Vec<u8>>) -> LtHash {
    let mut l = LtHash::identity();
    for (k, v) in model {
        l.add_entry(k, v);
    }
    l
}

fn check_fork(ctx: &mut Ctx, f: &Fork, keys: &[Address], hist: &[Value], what: &str) {
    ctx.eval();
    let mut problems = Vec::new();
    if f.state.len() != f.model.len() {
        problems.push(format!("len {} != model {}", f.state.len(), f.model.len()));
    }
    if f.state.is_empty() != f.model.is_empty() {
        problems.push("is_empty disagrees".into());
    }
    for k in keys {
        let got = f.state.get(k);
        let want = f.model.get(k).map(|v| v.as_slice());
        if got != want {
            problems.push(format!("get({}) = {:?} want {:?}", hex(&k[..6]), got.map(hex), want.map(hex)));
            break;
        }
    }
    let it: Vec<(Address, Vec<u8>)> = f.state.iter().map(|(k, v)| (*k, v.to_vec())).collect();
    let mit: Vec<(Address, Vec<u8>)> = f.model.iter().map(|(k, v)| (*k, v.clone())).collect();
    if it != mit {
        problems.push(format!("ordered iteration differs (got {} entries, model {})", it.len(), mit.len()));
    }
    let rc = recompute(&f.model);
    if f.lt != rc || f.lt.digest() != rc.digest() {
        problems.push("incremental LtHash != recomputed from contents".into());
    }
    if !problems.is_empty() {
        let clause = if problems[0].starts_with("incremental") { "lthash" } else { "map-semantics" };
        ctx.violation(
            format!("C20 state {clause} mismatch after {what}"),
            problems.join("; "),
            json!({"history": hist, "fork_lineage": f.lineage}),
        );
    }
}

fn state_workload(ctx: &mut Ctx, rng: &mut SRng, run_id: u64) {
    let nkeys = rng.random_range(4..48);
    let (keys, depths) = gen_keys(rng, nkeys);
    let mut forks: Vec<Fork> = vec![Fork { state: State::new(), model: BTreeMap::new(), lt: LtHash::identity(), lineage: 0 }];
    let mut hist: Vec<Value> = Vec::new();
    let nops = rng.random_range(20..300);
    let mut next_lineage = 1;
    for step in 0..nops {
        let fi = rng.random_range(0..forks.len());
        let ki = rng.random_range(0..keys.len());
        let key = keys[ki];
        let op = rng.random_range(0..100);
        let res = guarded(|| {
            if op < 50 {
                let vlen = if rng.random_bool(0.1) { 0 } else { rng.random_range(0..12) };
                let mut v = vec![0u8; vlen];
                rng.fill_bytes(&mut v);
                let f = &mut forks[fi];
                let old = f.state.insert(key, v.clone());
                let mold = f.model.insert(key, v.clone());
                f.lt.observe(&key, old.as_deref(), Some(&v));
                (format!("insert(f{fi},k{ki},{}B)", v.len()), old == mold, "insert")
            } else if op < 80 {
                let f = &mut forks[fi];
                let old = f.state.remove(&key);
                let mold = f.model.remove(&key);
                f.lt.observe(&key, old.as_deref(), None);
                (format!("remove(f{fi},k{ki})"), old == mold, "remove")
            } else if op < 92 && forks.len() < 6 {
                let f = &forks[fi];
                let nf = Fork { state: f.state.clone(), model: f.model.clone(), lt: f.lt.clone(), lineage: next_lineage };
                forks.push(nf);
                (format!("fork(f{fi})->f{}", forks.len() - 1), true, "fork")
            } else if forks.len() > 1 {
                forks.remove(fi);
                (format!("drop(f{fi})"), true, "drop")
            } else {
                ("noop".to_string(), true, "noop")
            }
        });
        next_lineage += 1;
        match res {
            Err(p) => {
                hist.push(json!(format!("step {step}: PANIC")));
                ctx.violation(format!("C20 state {}", p.sig()), format!("{} at {}:{}", p.msg, p.file, p.line), json!({"history": hist, "keys": keys.iter().map(|k| hex(k)).collect::<Vec<_>>()}));
                return;
            }
            Ok((desc, ret_ok, kind)) => {
                hist.push(json!(desc));
                ctx.count(&format!("state-op:{kind}"));
                ctx.distinct(format!("state:{kind}:{}:forks{}", depth_class(depths[ki]), forks.len().min(6)));
                if !ret_ok {
                    ctx.violation(format!("C20 state {kind} returned a different previous value than the model"), "return value mismatch", json!({"history": hist}));
                    return;
                }
            }
        }
        // every live fork is checked after every operation: isolation means the untouched
        // forks still equal their own models
        let v0 = ctx.violations.len();
        for f in &forks {
            check_fork(ctx, f, &keys, &hist, "operation");
        }
        if ctx.violations.len() > v0 {
            return;
        }
        // equality is content equality
        if step % 7 == 0 && forks.len() >= 2 {
            for a in 0..forks.len() {
                for b in a + 1..forks.len() {
                    ctx.eval();
                    let eq = forks[a].state == forks[b].state;
                    let meq = forks[a].model == forks[b].model;
                    if eq != meq {
                        ctx.violation("C20 state equality differs from content equality (forks)", format!("forks {a},{b}: state== {eq}, contents== {meq}"), json!({"history": hist}));
                        return;
                    }
                    if meq {
                        ctx.count("equal-content-forks-compared");
                    }
                }
            }
        }
    }
    // canonical form: rebuild final contents through other operation orders / detours
    for (fi, f) in forks.iter().enumerate() {
        let mut entries: Vec<(Address, Vec<u8>)> = f.model.iter().map(|(k, v)| (*k, v.clone())).collect();
        for variant in 0..3 {
            entries.shuffle(rng);
            let mut s = State::new();
            let mut lt = LtHash::identity();
            let r = guarded(|| {
                for (k, v) in &entries {
                    if variant == 1 {
                        // detour: insert a wrong value first, and a neighbour that is removed again
                        let old = s.insert(*k, vec![0xee]);
                        lt.observe(k, old.as_deref(), Some(&[0xee]));
                    }
                    let old = s.insert(*k, v.clone());
                    lt.observe(k, old.as_deref(), Some(v));
                }
                if variant == 2 {
                    for k in &keys {
                        if !f.model.contains_key(k) {
                            let old = s.insert(*k, vec![1, 2, 3]);
                            lt.observe(k, old.as_deref(), Some(&[1, 2, 3]));
                        }
                    }
                    let mut ks = keys.clone();
                    ks.shuffle(rng);
                    for k in &ks {
                        if !f.model.contains_key(k) {
                            let old = s.remove(k);
                            lt.observe(k, old.as_deref(), None);
                        }
                    }
                }
            });
            ctx.eval();
            if let Err(p) = r {
                ctx.violation(format!("C20 state {}", p.sig()), p.msg, json!({"history": hist, "rebuild_variant": variant}));
                return;
            }
            ctx.count("rebuild-compared");
            if s != f.state || s.len() != f.state.len() {
                ctx.violation(
                    format!("C20 states with equal contents are not equal (rebuild variant {variant})"),
                    format!("fork {fi} with {} entries rebuilt by a different operation order compares unequal", f.model.len()),
                    json!({"history": hist, "entries": entries.iter().map(|(k, v)| (hex(k), hex(v))).collect::<Vec<_>>(), "keys": keys.iter().map(|k| hex(k)).collect::<Vec<_>>()}),
                );
                return;
            }
            if lt != f.lt || lt.digest() != f.lt.digest() {
                ctx.violation("C20 LtHash depends on operation order", format!("fork {fi} rebuild variant {variant}"), json!({"history": hist}));
                return;
            }
        }
    }
    if ctx.sample_cap() {
        let tail: Vec<Value> = hist.iter().take(12).cloned().collect();
        ctx.sample(json!({"kind": "state-history", "run": run_id, "keys": nkeys, "max_shared_prefix_bits": depths.iter().max(), "ops": hist.len(), "first_ops": tail}));
    }
}

// ---------------------------------------------------------------------------
// Placeholder engine
// ---------------------------------------------------------------------------

fn fold(mut h: [u8; 32], txs: &[Vec<u8>]) -> [u8; 32] {
    for t in txs {
        let mut s = Sha256::new();
        s.update(h);
        s.update(t);
        h = s.finalize().into();
    }
    h
}

#[derive(Clone)]
struct MBlock {
    id: (u64, [u8; 32]),
    parent: Option<(u64, [u8; 32])>,
    known: bool,
    slices: Vec<Vec<Vec<u8>>>,
}

fn bid(id: &(u64, [u8; 32])) -> (Slot, BlockHash) {
    (Slot::new(id.0), BlockHash::from(to_hash(&id.1)))
}

fn engine_workload(ctx: &mut Ctx, rng: &mut SRng, run_id: u64, allow_ambiguous_parent: bool) {
    let (tx1, mut rx1) = tokio::sync::mpsc::channel(4096);
    let (tx2, mut rx2) = tokio::sync::mpsc::channel(4096);
    let mut e1 = DummyExecution::new(tx1);
    let mut e2 = DummyExecution::new(tx2);
    // model: executed blocks (begin_block called, not pruned): id -> commitment
    let mut executed: BTreeMap<(u64, [u8; 32]), [u8; 32]> = BTreeMap::new();
    let mut pending_slot_used: BTreeMap<u64, [u8; 32]> = BTreeMap::new();
    let mut all_ids: Vec<(u64, [u8; 32])> = Vec::new();
    let mut hist: Vec<Value> = Vec::new();
    let nblocks = rng.random_range(3..24);
    let mut finalized_slot = 0u64;
    let mut shape = Vec::new();
    for b in 0..nblocks {
        let slot = rng.random_range(finalized_slot.max(1)..finalized_slot.max(1) + 6);
        let mut hash = [0u8; 32];
        rng.fill_bytes(&mut hash);
        // choose a parent: known executed block, an unknown id, genesis-like None
        let pc = rng.random_range(0..10);
        let candidates: Vec<(u64, [u8; 32])> = all_ids.iter().filter(|i| i.0 < slot).cloned().collect();
        let parent: Option<(u64, [u8; 32])> = if pc == 0 {
            None
        } else if pc <= 6 && !candidates.is_empty() {
            Some(candidates[rng.random_range(0..candidates.len())])
        } else {
            // never-executed parent
            let ps = rng.random_range(0..slot);
            let mut ph = [0u8; 32];
            rng.fill_bytes(&mut ph);
            if !allow_ambiguous_parent && pending_slot_used.contains_key(&ps) {
                None
            } else {
                Some((ps, ph))
            }
        };
        let known = rng.random_bool(0.4) || pending_slot_used.contains_key(&slot);
        let nsl = rng.random_range(0..4);
        let slices: Vec<Vec<Vec<u8>>> = (0..nsl)
            .map(|_| {
                (0..rng.random_range(0..5))
                    .map(|_| {
                        let mut t = vec![0u8; rng.random_range(0..20)];
                        rng.fill_bytes(&mut t);
                        t
                    })
                    .collect()
            })
            .collect();
        let blk = MBlock { id: (slot, hash), parent, known, slices };
        let ipb = if known { InProgressBlock::Known(bid(&blk.id)) } else { InProgressBlock::Pending(Slot::new(slot)) };
        // model seed
        let parent_class;
        let seed = match &blk.parent {
            None => {
                parent_class = "none";
                let mut g = [0u8; 32];
                g.copy_from_slice(crate::wire::hash32(&GENESIS_BLOCK_HASH).as_slice());
                g
            }
            Some(p) => match executed.get(p) {
                Some(c) => {
                    parent_class = "executed";
                    *c
                }
                None => {
                    parent_class = if pending_slot_used.get(&p.0).is_some_and(|h| *h != p.1) { "unknown-hash-in-slot-with-other-pending-block" } else { "unknown" };
                    p.1
                }
            },
        };
        let all_txs: Vec<Vec<u8>> = blk.slices.iter().flatten().cloned().collect();
        let want = fold(seed, &all_txs);
        hist.push(json!({"block": b, "slot": slot, "hash": hex(&hash[..4]), "path": if known {"repair(Known)"} else {"dissemination(Pending)"},
                         "parent": blk.parent.map(|p| format!("{}:{}", p.0, hex(&p.1[..4]))), "parent_class": parent_class, "txs": all_txs.len()}));
        let r = guarded(|| {
            for e in [&mut e1, &mut e2] {
                e.begin_block(ipb.clone(), blk.parent.as_ref().map(bid));
                for s in &blk.slices {
                    e.execute_transactions(ipb.clone(), s.iter().cloned().map(Transaction).collect());
                }
                e.end_block(bid(&blk.id));
            }
        });
        ctx.eval();
        if let Err(p) = r {
            ctx.violation(format!("C20 engine {}", p.sig()), p.msg, json!({"history": hist}));
            return;
        }
        let ev1 = rx1.try_recv().ok();
        let ev2 = rx2.try_recv().ok();
        let view = |e: &Option<ExecutionEvent>| -> Option<((Slot, BlockHash), usize, StateCommitment)> {
            match e {
                Some(ExecutionEvent::BlockExecuted { block_id, result: Ok(r) }) => Some((block_id.clone(), r.tx_count, r.state_commitment.clone())),
                _ => None,
            }
        };
        let (v1, v2) = (view(&ev1), view(&ev2));
        ctx.distinct(format!("engine:{}:{}:slices{}", if known { "known" } else { "pending" }, parent_class, nsl.min(3)));
        ctx.count(&format!("engine-parent:{parent_class}"));
        if v1 != v2 {
            ctx.violation("C20 engine not deterministic across two instances", format!("{v1:?} vs {v2:?}"), json!({"history": hist}));
            return;
        }
        match v1 {
            None => {
                ctx.violation("C20 engine emitted no BlockExecuted for a completed block", "no event", json!({"history": hist}));
                return;
            }
            Some((id, txc, commitment)) => {
                let want_c = StateCommitment::from(to_hash(&want));
                if id != bid(&blk.id) || txc != all_txs.len() {
                    ctx.violation("C20 engine event id/tx_count mismatch", format!("{id:?} {txc}"), json!({"history": hist}));
                    return;
                }
                if commitment != want_c {
                    ctx.violation(
                        format!("C20 engine commitment differs from fold(parent commitment, txs) parent_class={parent_class}"),
                        format!("block {b} in slot {slot}: reported {commitment:?}, model {}", hex(&want)),
                        json!({"history": hist}),
                    );
                    return;
                }
            }
        }
        if rx1.try_recv().is_ok() {
            ctx.violation("C20 engine emitted more than one event for a block", "", json!({"history": hist}));
            return;
        }
        let _ = rx2.try_recv();
        executed.insert(blk.id, want);
        if !known {
            pending_slot_used.insert(slot, hash);
        }
        all_ids.push(blk.id);
        shape.push((slot, known));
        // occasionally finalize
        if rng.random_bool(0.15) && !all_ids.is_empty() {
            let f = all_ids[rng.random_range(0..all_ids.len())];
            e1.finalize(bid(&f));
            e2.finalize(bid(&f));
            finalized_slot = finalized_slot.max(f.0);
            executed.retain(|id, _| id.0 >= f.0);
            pending_slot_used.retain(|s, _| *s >= f.0);
            all_ids.retain(|id| id.0 >= f.0);
            hist.push(json!({"finalize": format!("{}:{}", f.0, hex(&f.1[..4]))}));
            ctx.count("engine-finalize");
        }
        // end_block for an unknown block must not emit
        if rng.random_bool(0.1) {
            let mut h = [0u8; 32];
            rng.fill_bytes(&mut h);
            let free_slot = (1u64..).find(|s| !pending_slot_used.contains_key(s) && *s > finalized_slot + 50).unwrap();
            e1.end_block((Slot::new(free_slot), BlockHash::from(to_hash(&h))));
            ctx.eval();
            if rx1.try_recv().is_ok() {
                ctx.violation("C20 engine emitted an event for a block it never began", "", json!({"history": hist}));
                return;
            }
        }
    }
    if ctx.sample_cap() {
        ctx.sample(json!({"kind": "engine-history", "run": run_id, "blocks": hist.iter().take(6).collect::<Vec<_>>()}));
    }
}

/// Engine workload with several blocks in progress at once (pipelined dissemination, repair racing
/// dissemination, an equivocating leader's second block streaming while children of the first begin).
/// Constraints kept, as the interface documents them: at most one hash-less (`Pending`) block in progress
/// per slot; a child begins after its parent has ended, or names a parent the engine never executed.
fn engine_interleaved(ctx: &mut Ctx, rng: &mut SRng, run_id: u64) {
    struct Prog {
        blk: MBlock,
        ipb: InProgressBlock,
        seed: [u8; 32],
        next_slice: usize,
        dropped: bool,
        parent_class: &'static str,
    }
    let (tx1, mut rx1) = tokio::sync::mpsc::channel(4096);
    let (tx2, mut rx2) = tokio::sync::mpsc::channel(4096);
    let mut e1 = DummyExecution::new(tx1);
    let mut e2 = DummyExecution::new(tx2);
    let mut executed: BTreeMap<(u64, [u8; 32]), [u8; 32]> = BTreeMap::new();
    let mut inprog: Vec<Prog> = Vec::new();
    let mut hist: Vec<Value> = Vec::new();
    let mut blocks_left = rng.random_range(4..18);
    let mut finalized_slot = 0u64;
    let mut steps = 0;
    while (blocks_left > 0 || !inprog.is_empty()) && steps < 400 {
        steps += 1;
        let start_new = blocks_left > 0 && inprog.len() < 3 && (inprog.is_empty() || rng.random_bool(0.4));
        if start_new {
            blocks_left -= 1;
            let slot = rng.random_range(finalized_slot.max(1)..finalized_slot.max(1) + 4);
            let mut hash = [0u8; 32];
            rng.fill_bytes(&mut hash);
            let pending_busy = |s: u64, inprog: &Vec<Prog>| inprog.iter().any(|p| !p.dropped && p.ipb == InProgressBlock::Pending(Slot::new(s)));
            let known = rng.random_bool(0.35) || pending_busy(slot, &inprog);
            let candidates: Vec<(u64, [u8; 32])> = executed.keys().filter(|i| i.0 < slot).cloned().collect();
            let pc = rng.random_range(0..10);
            let parent: Option<(u64, [u8; 32])> = if pc == 0 {
                None
            } else if pc <= 7 && !candidates.is_empty() {
                // prefer parents in slots where another block is streaming right now
                let hot: Vec<(u64, [u8; 32])> = candidates.iter().filter(|c| pending_busy(c.0, &inprog)).cloned().collect();
                Some(if !hot.is_empty() && rng.random_bool(0.7) { hot[rng.random_range(0..hot.len())] } else { candidates[rng.random_range(0..candidates.len())] })
            } else {
                let ps = rng.random_range(0..slot);
                let mut ph = [0u8; 32];
                rng.fill_bytes(&mut ph);
                if pending_busy(ps, &inprog) { None } else { Some((ps, ph)) }
            };
            let nsl = rng.random_range(0..4);
            let slices: Vec<Vec<Vec<u8>>> = (0..nsl)
                .map(|_| {
                    (0..rng.random_range(0..4))
                        .map(|_| {
                            let mut t = vec![0u8; rng.random_range(0..16)];
                            rng.fill_bytes(&mut t);
                            t
                        })
                        .collect()
                })
                .collect();
            let blk = MBlock { id: (slot, hash), parent, known, slices };
            let ipb = if known { InProgressBlock::Known(bid(&blk.id)) } else { InProgressBlock::Pending(Slot::new(slot)) };
            let (seed, parent_class) = match &blk.parent {
                None => {
                    let mut g = [0u8; 32];
                    g.copy_from_slice(crate::wire::hash32(&GENESIS_BLOCK_HASH).as_slice());
                    (g, "none")
                }
                Some(p) => match executed.get(p) {
                    Some(c) => (*c, if pending_busy(p.0, &inprog) { "executed-while-sibling-streams" } else { "executed" }),
                    None => (p.1, "never-executed"),
                },
            };
            hist.push(json!({"begin": format!("{}:{}", slot, hex(&hash[..4])), "path": if known {"Known"} else {"Pending"}, "parent": blk.parent.map(|p| format!("{}:{}", p.0, hex(&p.1[..4]))), "parent_class": parent_class}));
            let r = guarded(|| {
                for e in [&mut e1, &mut e2] {
                    e.begin_block(ipb.clone(), blk.parent.as_ref().map(bid));
                }
            });
            ctx.eval();
            if let Err(p) = r {
                ctx.violation(format!("C20 engine {}", p.sig()), p.msg, json!({"history": hist}));
                return;
            }
            ctx.count(&format!("engine-interleaved-parent:{parent_class}"));
            ctx.distinct(format!("engine-interleaved:{}:{}:inprog{}", if known { "known" } else { "pending" }, parent_class, inprog.len()));
            inprog.push(Prog { blk, ipb, seed, next_slice: 0, dropped: false, parent_class });
            continue;
        }
        if inprog.is_empty() {
            continue;
        }
        if rng.random_bool(0.08) && !executed.is_empty() {
            let ids: Vec<(u64, [u8; 32])> = executed.keys().cloned().collect();
            let f = ids[rng.random_range(0..ids.len())];
            e1.finalize(bid(&f));
            e2.finalize(bid(&f));
            finalized_slot = finalized_slot.max(f.0);
            executed.retain(|id, _| id.0 >= f.0);
            for p in inprog.iter_mut() {
                if p.blk.id.0 < f.0 {
                    p.dropped = true;
                }
            }
            hist.push(json!({"finalize": format!("{}:{}", f.0, hex(&f.1[..4]))}));
            ctx.count("engine-interleaved-finalize");
            continue;
        }
        let k = rng.random_range(0..inprog.len());
        if inprog[k].next_slice < inprog[k].blk.slices.len() {
            let sl = inprog[k].blk.slices[inprog[k].next_slice].clone();
            inprog[k].next_slice += 1;
            let ipb = inprog[k].ipb.clone();
            let r = guarded(|| {
                for e in [&mut e1, &mut e2] {
                    e.execute_transactions(ipb.clone(), sl.iter().cloned().map(Transaction).collect());
                }
            });
            ctx.eval();
            if let Err(p) = r {
                ctx.violation(format!("C20 engine {}", p.sig()), p.msg, json!({"history": hist}));
                return;
            }
            continue;
        }
        let p = inprog.remove(k);
        hist.push(json!({"end": format!("{}:{}", p.blk.id.0, hex(&p.blk.id.1[..4])), "dropped_by_finalize": p.dropped}));
        let r = guarded(|| {
            for e in [&mut e1, &mut e2] {
                e.end_block(bid(&p.blk.id));
            }
        });
        ctx.eval();
        if let Err(pp) = r {
            ctx.violation(format!("C20 engine {}", pp.sig()), pp.msg, json!({"history": hist}));
            return;
        }
        let view = |e: Option<ExecutionEvent>| -> Option<((Slot, BlockHash), usize, StateCommitment)> {
            match e {
                Some(ExecutionEvent::BlockExecuted { block_id, result: Ok(r) }) => Some((block_id, r.tx_count, r.state_commitment)),
                _ => None,
            }
        };
        let (v1, v2) = (view(rx1.try_recv().ok()), view(rx2.try_recv().ok()));
        if v1 != v2 {
            ctx.violation("C20 engine not deterministic across two instances (interleaved)", format!("{v1:?} vs {v2:?}"), json!({"history": hist}));
            return;
        }
        if p.dropped {
            // pruned by a finalization while in progress: whatever the engine does, it must not report a
            // commitment for a different block
            if let Some((id, ..)) = &v1 {
                if *id != bid(&p.blk.id) {
                    ctx.violation("C20 engine event names another block", format!("{id:?}"), json!({"history": hist}));
                    return;
                }
            }
            continue;
        }
        let all_txs: Vec<Vec<u8>> = p.blk.slices.iter().flatten().cloned().collect();
        let want = fold(p.seed, &all_txs);
        match v1 {
            None => {
                ctx.violation("C20 engine emitted no BlockExecuted for a completed block (interleaved)", "no event", json!({"history": hist}));
                return;
            }
            Some((id, txc, commitment)) => {
                if id != bid(&p.blk.id) || txc != all_txs.len() {
                    ctx.violation("C20 engine event id/tx_count mismatch (interleaved)", format!("{id:?} {txc} expected {}", all_txs.len()), json!({"history": hist}));
                    return;
                }
                if commitment != StateCommitment::from(to_hash(&want)) {
                    ctx.violation(
                        format!("C20 engine commitment differs from fold(parent commitment, txs) with blocks in progress parent_class={}", p.parent_class),
                        format!("block {}:{} reported {commitment:?}, model {}", p.blk.id.0, hex(&p.blk.id.1[..4]), hex(&want)),
                        json!({"history": hist}),
                    );
                    return;
                }
            }
        }
        if rx1.try_recv().is_ok() {
            ctx.violation("C20 engine emitted more than one event for a block (interleaved)", "", json!({"history": hist}));
            return;
        }
        let _ = rx2.try_recv();
        executed.insert(p.blk.id, want);
    }
    if ctx.sample_cap() {
        ctx.sample(json!({"kind": "engine-interleaved-history", "run": run_id, "events": hist.iter().take(8).collect::<Vec<_>>()}));
    }
}

pub fn run(ctx: &mut Ctx) -> Result<(), String> {
    let mut rng = ctx.rng("state");
    let runs = ctx.iters(1600, 120_000);
    for r in 0..runs {
        state_workload(ctx, &mut rng, r);
        if ctx.violations.len() > 20 {
            break;
        }
    }
    let mut rng = ctx.rng("engine");
    let runs = ctx.iters(3200, 200_000);
    for r in 0..runs {
        engine_workload(ctx, &mut rng, r, true);
        if ctx.violations.len() > 20 {
            break;
        }
    }
    let mut rng = ctx.rng("engine-interleaved");
    let runs = ctx.iters(3200, 200_000);
    for r in 0..runs {
        engine_interleaved(ctx, &mut rng, r);
        if ctx.violations.len() > 20 {
            break;
        }
    }
    Ok(())
}
