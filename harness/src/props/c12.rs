//! C12 Shreds are bound to leader, slot, slice and position; equivocation is detected.

use std::collections::BTreeMap;

use alpenglow::consensus::{AddShredError, Blockstore, BlockstoreEvent, BlockstoreImpl};
use alpenglow::crypto::signature::{PublicKey, SecretKey};
use alpenglow::shredder::{RegularShredder, ShredValidationError, Shredder, SliceCommitment, ValidatedShred};
use alpenglow::types::{Slice, Slot};
use rand::prelude::*;
use serde_json::json;

use crate::common::{SRng, bh, hex};
use crate::evidence::{Ctx, guarded, guarded_async};
use crate::props::c15::{ref_leaf, ref_pair};
use crate::wire::*;

/// (slot, slice, is_last, root)
type Commit = (u64, u64, u8, [u8; 32]);

fn commit_bytes(c: &Commit) -> Vec<u8> {
    let mut b = Vec::with_capacity(49);
    b.extend_from_slice(&c.0.to_le_bytes());
    b.extend_from_slice(&c.1.to_le_bytes());
    b.push(c.2);
    b.extend_from_slice(&c.3);
    b
}

fn ref_root(p: &ShredParts) -> [u8; 32] {
    let mut node = ref_leaf(&p.data);
    let mut i = p.shred_index;
    for h in &p.proof {
        node = if i % 2 == 0 { ref_pair(&node, h) } else { ref_pair(h, &node) };
        i /= 2;
    }
    node
}

fn commit_of(p: &ShredParts) -> Commit {
    (p.slot, p.slice_index, p.is_last, ref_root(p))
}

static LAYOUT_MISMATCH: std::sync::atomic::AtomicBool = std::sync::atomic::AtomicBool::new(false);

struct Signed {
    /// commitment -> the leader's genuine signature over it
    sigs: BTreeMap<Commit, [u8; 64]>,
}

#[derive(Clone, Copy, Debug, PartialEq, Eq)]
enum Verdict {
    Ok,
    InvalidSignature,
    Equivocation,
}

fn truth(signed: &Signed, p: &ShredParts, cache: Option<&Commit>, key_is_leader: bool) -> Verdict {
    let cm = commit_of(p);
    let sig_valid = key_is_leader && p.is_last <= 1 && signed.sigs.get(&cm) == Some(&p.sig);
    match cache {
        Some(c) if *c == cm => Verdict::Ok,
        Some(_) => {
            if sig_valid {
                Verdict::Equivocation
            } else {
                Verdict::InvalidSignature
            }
        }
        None => {
            if sig_valid {
                Verdict::Ok
            } else {
                Verdict::InvalidSignature
            }
        }
    }
}

struct SliceSet {
    slice: Slice,
    shreds: Vec<ValidatedShred>,
    parts: Vec<ShredParts>,
    commit: Commit,
    cached: SliceCommitment,
}

fn make_slice(rng: &mut SRng, sk: &SecretKey, slot: u64, idx: usize, last: bool, data: Vec<u8>, signed: &mut Signed) -> SliceSet {
    let slice = Slice { slot: Slot::new(slot), slice_index: slice_index(idx), is_last: last, parent: if idx == 0 { Some((Slot::new(slot.saturating_sub(1)), bh(1))) } else { None }, data };
    let shreds = RegularShredder::default().shred(&slice, sk).expect("shred").to_vec();
    let parts: Vec<ShredParts> = shreds.iter().map(|s| ShredParts::of(s.as_shred())).collect();
    let commit = commit_of(&parts[0]);
    signed.sigs.insert(commit, parts[0].sig);
    let cached = shreds[0].commitment();
    // the reference derivation (documented Merkle construction) and the crate's commitment normally agree; if a
    // change to the crate makes them differ, the oracle keeps judging by the reference (what the leader's
    // signature is supposed to bind) instead of stopping the harness
    if cached.as_ref() != commit_bytes(&commit).as_slice() {
        LAYOUT_MISMATCH.store(true, std::sync::atomic::Ordering::Relaxed);
    }
    SliceSet { slice, shreds, parts, commit, cached }
}

fn data_of(rng: &mut SRng, len: usize) -> Vec<u8> {
    // a decodable (empty) transaction list padded out, so that blockstore-level runs can complete blocks
    let mut d = 0u64.to_le_bytes().to_vec();
    let _ = len;
    let _ = rng;
    d.truncate(8);
    d
}

fn tx_payload(rng: &mut SRng, ntx: usize) -> Vec<u8> {
    let mut d = (ntx as u64).to_le_bytes().to_vec();
    for _ in 0..ntx {
        let l = rng.random_range(0..200usize);
        d.extend_from_slice(&(l as u64).to_le_bytes());
        let mut t = vec![0u8; l];
        rng.fill_bytes(&mut t);
        d.extend_from_slice(&t);
    }
    d
}

struct Mutant {
    class: String,
    parts: ShredParts,
}

fn mutants(rng: &mut SRng, a: &SliceSet, b: &SliceSet, c: &SliceSet, conflict: &SliceSet, flagtwin: &SliceSet) -> Vec<Mutant> {
    let mut out = Vec::new();
    let i = rng.random_range(0..64usize);
    let g = a.parts[i].clone();
    let mut push = |class: &str, p: ShredParts| out.push(Mutant { class: class.to_string(), parts: p });
    push("none", g.clone());
    // header fields
    let mut m = g.clone();
    m.slot = c.parts[0].slot;
    push("header-slot(cross-slot replay)", m);
    let mut m = g.clone();
    m.slot = g.slot.wrapping_add(rng.random_range(1..1000));
    push("header-slot(other)", m);
    let mut m = g.clone();
    m.slice_index = b.parts[0].slice_index;
    push("header-slice-index(cross-slice replay)", m);
    let mut m = g.clone();
    m.slice_index = (g.slice_index + 512) % 1024;
    push("header-slice-index(other)", m);
    let mut m = g.clone();
    m.is_last ^= 1;
    push("header-last-flag", m);
    let mut m = g.clone();
    m.is_last = 2;
    push("header-last-flag(non-boolean byte)", m);
    // shred index
    for k in [1u64, 2, 32, 63] {
        let mut m = g.clone();
        m.shred_index = (g.shred_index + k) % 64;
        push("shred-index(other<64)", m);
    }
    let mut m = g.clone();
    m.shred_index = 64 + g.shred_index;
    push("shred-index(>=64)", m);
    // payload
    let mut m = g.clone();
    if !m.data.is_empty() {
        let k = rng.random_range(0..m.data.len());
        m.data[k] ^= 1 << rng.random_range(0..8);
    }
    push("payload-bitflip", m);
    let mut m = g.clone();
    m.data.pop();
    push("payload-truncated", m);
    let mut m = g.clone();
    m.data.push(0);
    push("payload-extended", m);
    let mut m = g.clone();
    m.data.clear();
    push("payload-empty", m);
    // proof
    for e in 0..g.proof.len() {
        let mut m = g.clone();
        m.proof[e][rng.random_range(0..32)] ^= 1 << rng.random_range(0..8);
        push("proof-element-bitflip", m);
    }
    let mut m = g.clone();
    m.proof.pop();
    push("proof-element-dropped", m);
    let mut m = g.clone();
    m.proof.remove(0);
    push("proof-first-element-dropped", m);
    let mut m = g.clone();
    m.proof.push([0u8; 32]);
    push("proof-element-added", m);
    let mut m = g.clone();
    m.proof.swap(0, 1);
    push("proof-elements-reordered", m);
    let mut m = g.clone();
    m.proof.clear();
    push("proof-empty", m);
    // signature
    let mut m = g.clone();
    m.sig[rng.random_range(0..64)] ^= 1 << rng.random_range(0..8);
    push("signature-bitflip", m);
    let mut m = g.clone();
    m.sig = b.parts[0].sig;
    push("signature-of-another-slice", m);
    let mut m = g.clone();
    m.sig = [0u8; 64];
    push("signature-zero", m);
    // data / coding tag
    let mut m = g.clone();
    m.tag ^= 1;
    push("data-coding-tag-flipped", m);
    // cross replays: payload + proof of one shred under the header of another
    let mut m = b.parts[i].clone();
    m.slot = g.slot;
    m.slice_index = g.slice_index;
    m.is_last = g.is_last;
    push("payload+proof+sig of another slice under this header", m);
    let mut m = g.clone();
    m.data = b.parts[i].data.clone();
    m.proof = b.parts[i].proof.clone();
    push("payload+proof of another slice, this header and signature", m);
    let mut m = c.parts[i].clone();
    m.slot = g.slot;
    push("shred of another slot under this slot", m);
    // conflicting (validly signed) versions of this very slice
    push("conflicting-slice-version(genuine shred of it)", conflict.parts[i].clone());
    push("last-flag-twin(genuine shred of it)", flagtwin.parts[i].clone());
    let mut m = g.clone();
    m.is_last = flagtwin.parts[0].is_last;
    m.sig = flagtwin.parts[0].sig;
    push("header-last-flag + twin signature", m);
    // combined
    let mut m = g.clone();
    m.tag ^= 1;
    m.sig[0] ^= 1;
    push("tag+signature", m);
    let mut m = g.clone();
    m.slice_index = b.parts[0].slice_index;
    m.sig = b.parts[0].sig;
    push("slice-index + that slice's signature", m);
    out
}

fn verdict_of(r: &Result<ValidatedShred, ShredValidationError>) -> Verdict {
    match r {
        Ok(_) => Verdict::Ok,
        Err(ShredValidationError::InvalidSignature) => Verdict::InvalidSignature,
        Err(ShredValidationError::Equivocation) => Verdict::Equivocation,
    }
}

fn unit_level(ctx: &mut Ctx, rng: &mut SRng) {
    let sk = SecretKey::new(rng);
    let pk = sk.to_pk();
    let other_pk = SecretKey::new(rng).to_pk();
    let mut signed = Signed { sigs: BTreeMap::new() };
    let slot = rng.random_range(1..1_000_000u64);
    let idx = rng.random_range(0..1023usize);
    let last = rng.random_bool(0.5);
    let dlen = *[0usize, 1, 40, 900, 5000, 32000].choose(rng).unwrap();
    let mut data = vec![0u8; dlen];
    rng.fill_bytes(&mut data);
    let a = make_slice(rng, &sk, slot, idx, last, data.clone(), &mut signed);
    let mut d2 = vec![0u8; dlen];
    rng.fill_bytes(&mut d2);
    let b_last = rng.random_bool(0.5);
    let b = make_slice(rng, &sk, slot, (idx + 1) % 1024, b_last, d2.clone(), &mut signed);
    let c = make_slice(rng, &sk, slot + 1, idx, last, d2, &mut signed);
    let mut d3 = data.clone();
    d3.push(1);
    let conflict = make_slice(rng, &sk, slot, idx, last, d3, &mut signed);
    // same content (hence same root) signed with the other last flag
    let mut twin_slice = a.slice.clone();
    twin_slice.is_last = !last;
    let tw_shreds = RegularShredder::default().shred(&twin_slice, &sk).expect("shred").to_vec();
    let tw_parts: Vec<ShredParts> = tw_shreds.iter().map(|s| ShredParts::of(s.as_shred())).collect();
    let tw_commit = commit_of(&tw_parts[0]);
    signed.sigs.insert(tw_commit, tw_parts[0].sig);
    let flagtwin = SliceSet { slice: twin_slice, cached: tw_shreds[0].commitment(), shreds: tw_shreds, parts: tw_parts, commit: tw_commit };

    let commits: Vec<(&str, &SliceSet)> = vec![("genuine", &a), ("conflicting-version", &conflict), ("last-flag-twin", &flagtwin), ("slice-b", &b), ("slot-c", &c)];
    for m in mutants(rng, &a, &b, &c, &conflict, &flagtwin) {
        let bytes = m.parts.encode();
        let decoded = guarded(|| de_shred(&bytes));
        let shred = match decoded {
            Err(p) => {
                ctx.violation(format!("C12 shred decode {}", p.sig()), p.msg, json!({"mutation": m.class, "bytes": hex(&bytes)}));
                continue;
            }
            Ok(None) => {
                ctx.eval();
                ctx.count("mutant-undecodable");
                ctx.distinct(format!("{}:undecodable", m.class));
                continue;
            }
            Ok(Some(s)) => s,
        };
        let canon = ShredParts::of(&shred);
        // cache states the node could hold for the (slot, slice) this shred claims
        let mut caches: Vec<(&str, Option<&SliceSet>)> = vec![("no-cache", None)];
        for (name, set) in &commits {
            if set.commit.0 == canon.slot && set.commit.1 == canon.slice_index {
                caches.push((name, Some(set)));
            }
        }
        for (cname, cset) in caches {
            for (kname, key, is_leader) in [("leader-key", &pk, true), ("other-key", &other_pk, false)] {
                if !is_leader && rng.random_bool(0.7) {
                    continue;
                }
                ctx.eval();
                let want = truth(&signed, &canon, cset.map(|s| &s.commit), is_leader);
                let got = guarded(|| ValidatedShred::try_new(shred.clone(), cset.map(|s| &s.cached), key));
                let w = || json!({"mutation": m.class, "cache": cname, "key": kname, "slot": canon.slot, "slice": canon.slice_index, "shred_index": canon.shred_index, "is_last": canon.is_last, "data_len": canon.data.len(), "proof_len": canon.proof.len(), "bytes": hex(&bytes[..bytes.len().min(200)])});
                match got {
                    Err(p) => ctx.violation(format!("C12 try_new {} mutation={}", p.sig(), m.class), p.msg, w()),
                    Ok(r) => {
                        let g = verdict_of(&r);
                        ctx.distinct(format!("{}:{cname}:{kname}:{g:?}", m.class));
                        ctx.count(&format!("try_new:{g:?}"));
                        if g != want {
                            ctx.violation(
                                format!("C12 try_new returned {g:?} expected {want:?} mutation={} cache={cname} key={kname}", m.class),
                                format!("shred claims slot {} slice {} index {} last {}", canon.slot, canon.slice_index, canon.shred_index, canon.is_last),
                                w(),
                            );
                        }
                        if let Ok(v) = r {
                            // the validated shred reports the commitment the oracle derives
                            if v.commitment().as_ref() != commit_bytes(&commit_of(&canon)).as_slice() {
                                ctx.violation("C12 validated shred reports a commitment different from its own header/root", m.class.clone(), w());
                            }
                        }
                    }
                }
            }
        }
    }
    let _ = data_of;
}

/// Node path: cached commitment looked up by the claimed (slot, slice), validation, insertion.
async fn node_path(bs: &mut BlockstoreImpl, bytes: &[u8], pk: &PublicKey) -> Option<Result<(), AddShredError>> {
    let shred = de_shred(bytes)?;
    let p = ShredParts::of(&shred);
    let cached = bs.cached_commitment(Slot::new(p.slot), slice_index(p.slice_index as usize));
    let v = ValidatedShred::try_new(shred, cached.as_ref(), pk).ok()?;
    Some(bs.add_shred_from_dissemination(v).await.map(|_| ()))
}

async fn blockstore_level(ctx: &mut Ctx, rng: &mut SRng) {
    let sk = SecretKey::new(rng);
    let pk = sk.to_pk();
    let slot = rng.random_range(1..100_000u64);
    // ---- (i) two conflicting signed versions of one slice, every kind of interleaving
    {
        let mut signed = Signed { sigs: BTreeMap::new() };
        let nsl = rng.random_range(1..4usize);
        let which = rng.random_range(0..nsl);
        let mut good: Vec<SliceSet> = Vec::new();
        for i in 0..nsl {
            let ntx = rng.random_range(0..4);
            let pl = tx_payload(rng, ntx);
            good.push(make_slice(rng, &sk, slot, i, i + 1 == nsl, pl, &mut signed));
        }
        let conflict_kind = rng.random_range(0..2);
        let conflict = if conflict_kind == 0 {
            {
                let pl = tx_payload(rng, 5);
                make_slice(rng, &sk, slot, which, which + 1 == nsl, pl, &mut signed)
            }
        } else {
            let mut s = good[which].slice.clone();
            s.is_last = !s.is_last;
            let shreds = RegularShredder::default().shred(&s, &sk).unwrap().to_vec();
            let parts: Vec<ShredParts> = shreds.iter().map(|x| ShredParts::of(x.as_shred())).collect();
            let commit = commit_of(&parts[0]);
            SliceSet { slice: s, cached: shreds[0].commitment(), shreds, parts, commit }
        };
        let (tx, mut rx) = tokio::sync::mpsc::channel(100_000);
        let mut bs = BlockstoreImpl::new(tx);
        // stream: a shuffled mix of genuine shreds and conflicting shreds
        let mut stream: Vec<(bool, ValidatedShred)> = Vec::new();
        for s in &good {
            let k = rng.random_range(1..=64);
            for sh in s.shreds.sample(rng, k) {
                stream.push((false, sh.clone()));
            }
        }
        let k = rng.random_range(1..=8);
        for sh in conflict.shreds.sample(rng, k) {
            stream.push((true, sh.clone()));
        }
        stream.shuffle(rng);
        let mut seen_good_of_slice = false;
        let mut seen_conflict = false;
        let mut revealed = false;
        let mut flagged_before = false;
        let mut equivocation_errors = 0;
        let mut order = Vec::new();
        for (is_conf, sh) in stream {
            let p = ShredParts::of(sh.as_shred());
            let r = guarded_async(bs.add_shred_from_dissemination(sh)).await;
            ctx.eval();
            order.push(json!({"conflicting": is_conf, "slice": p.slice_index, "shred": p.shred_index, "result": format!("{:?}", r.as_ref().map(|x| x.as_ref().map(|_| ()).map_err(|e| *e)))}));
            match r {
                Err(pn) => {
                    ctx.violation(format!("C12 blockstore {}", pn.sig()), pn.msg, json!({"order": order}));
                    return;
                }
                Ok(res) => {
                    if p.slice_index as usize == which {
                        if is_conf {
                            seen_conflict = true;
                        } else {
                            seen_good_of_slice = true;
                        }
                    }
                    let now_revealed = seen_conflict && seen_good_of_slice;
                    if now_revealed && !revealed {
                        revealed = true;
                        // the shred that completes the evidence must be refused as equivocation
                        let acceptable = res == Err(AddShredError::Equivocation) || (flagged_before && res == Err(AddShredError::InvalidShred));
                        if !acceptable {
                            ctx.violation(
                                format!("C12 blockstore accepted the shred revealing two signed versions of a slice ({})", if conflict_kind == 0 { "different content" } else { "different last flag" }),
                                format!("{res:?}"),
                                json!({"order": order, "slices": nsl, "conflicting_slice": which}),
                            );
                            return;
                        }
                    }
                    if res == Err(AddShredError::Equivocation) {
                        equivocation_errors += 1;
                    }
                    if matches!(res, Err(AddShredError::Equivocation | AddShredError::InvalidShred)) {
                        flagged_before = true;
                    }
                }
            }
        }
        let mut invalid = 0;
        let mut blocks_after = 0;
        let mut seen_invalid = false;
        while let Ok(ev) = rx.try_recv() {
            match ev {
                BlockstoreEvent::InvalidBlock(s) if s == Slot::new(slot) => {
                    invalid += 1;
                    seen_invalid = true;
                }
                BlockstoreEvent::Block { .. } if seen_invalid => blocks_after += 1,
                _ => {}
            }
        }
        ctx.count("blockstore:conflict-interleavings");
        ctx.distinct(format!("blockstore-conflict:{}:slices{nsl}:which{which}:eq{}", conflict_kind, equivocation_errors.min(3)));
        if revealed && invalid != 1 {
            ctx.violation(format!("C12 blockstore announced {} InvalidBlock events for an equivocating leader", invalid.min(2)), "", json!({"order": order}));
        }
        if blocks_after > 0 {
            ctx.violation("C12 blockstore announced a block after flagging the slot invalid", "", json!({"order": order}));
        }
    }
    // ---- (ii) a correct leader's genuine shreds plus every mutant that passes validation
    {
        let mut signed = Signed { sigs: BTreeMap::new() };
        let nsl = rng.random_range(1..4usize);
        let slot2 = slot + 7;
        let mut good: Vec<SliceSet> = Vec::new();
        for i in 0..nsl {
            let ntx = rng.random_range(0..4);
            let pl = tx_payload(rng, ntx);
            good.push(make_slice(rng, &sk, slot2, i, i + 1 == nsl, pl, &mut signed));
        }
        let pl = tx_payload(rng, 1);
        let other_slot = make_slice(rng, &sk, slot2 + 1, 0, true, pl, &mut signed);
        // mutants derived from genuine shreds only (a correct leader signs nothing else for this slot)
        let mut stream: Vec<(String, Vec<u8>)> = Vec::new();
        for s in &good {
            for sh in &s.parts {
                stream.push(("genuine".into(), sh.encode()));
            }
        }
        let genuine_bytes: std::collections::BTreeSet<Vec<u8>> = stream.iter().map(|(_, b)| b.clone()).collect();
        // all mutants of ONE class per run, so that a flag is attributable to that class
        let probe = mutants(rng, &good[0], &good[nsl - 1], &other_slot, &good[0], &good[0]);
        let classes: Vec<String> = probe.iter().map(|m| m.class.clone()).filter(|c| !c.contains("twin") && !c.starts_with("conflicting")).collect::<std::collections::BTreeSet<_>>().into_iter().collect();
        let the_class = classes[rng.random_range(0..classes.len())].clone();
        let nmut = rng.random_range(2..24);
        for _ in 0..nmut {
            let a = &good[rng.random_range(0..nsl)];
            let b = &good[rng.random_range(0..nsl)];
            for m in mutants(rng, a, b, &other_slot, a, a) {
                if m.class == the_class {
                    let enc = m.parts.encode();
                    if !genuine_bytes.contains(&enc) {
                        stream.push((m.class, enc));
                    }
                }
            }
        }
        stream.shuffle(rng);
        let (tx, mut rx) = tokio::sync::mpsc::channel(100_000);
        let mut bs = BlockstoreImpl::new(tx);
        let mut passed: Vec<String> = Vec::new();
        for (class, bytes) in &stream {
            ctx.eval();
            let r = guarded_async(node_path(&mut bs, bytes, &pk)).await;
            match r {
                Err(pn) => {
                    ctx.violation(format!("C12 node path {} mutation={class}", pn.sig()), pn.msg, json!({"mutation": class}));
                    return;
                }
                Ok(None) => {}
                Ok(Some(res)) => {
                    let p = ShredParts::parse(bytes);
                    if p.as_ref().is_some_and(|p| p.slot != slot2) {
                        continue;
                    }
                    if class != "genuine" {
                        passed.push(class.clone());
                        ctx.count(&format!("passed-validation:{class}"));
                        ctx.distinct(format!("correct-leader:passed:{class}"));
                    }
                    if matches!(res, Err(AddShredError::Equivocation | AddShredError::InvalidShred)) {
                        ctx.violation(
                            format!("C12 correct leader reported as misbehaving by a shred that passed validation mutation={the_class}"),
                            format!("add_shred_from_dissemination returned {res:?} for a shred of class {class}"),
                            json!({"mutation": class, "slices": nsl, "passed_so_far": passed, "shred": p.map(|p| json!({"slice": p.slice_index, "index": p.shred_index, "tag": p.tag}))}),
                        );
                        return;
                    }
                }
            }
        }
        let mut invalid = 0;
        let mut blocks = 0;
        while let Ok(ev) = rx.try_recv() {
            match ev {
                BlockstoreEvent::InvalidBlock(s) if s == Slot::new(slot2) => invalid += 1,
                BlockstoreEvent::Block { slot: s, .. } if s == Slot::new(slot2) => blocks += 1,
                _ => {}
            }
        }
        ctx.count("blockstore:correct-leader-runs");
        ctx.distinct(format!("correct-leader:slices{nsl}:blocks{blocks}"));
        if invalid > 0 {
            ctx.violation("C12 correct leader's slot flagged InvalidBlock", format!("passed mutants: {passed:?}"), json!({"passed": passed}));
        }
        if blocks != 1 {
            ctx.violation(format!("C12 correct leader's block announced {blocks} times although all genuine shreds were delivered"), format!("passed mutants: {passed:?}"), json!({"passed": passed}));
        }
    }
}

pub fn run(ctx: &mut Ctx) -> Result<(), String> {
    let mut rng = ctx.rng("unit");
    let it = ctx.iters(320, 40_000);
    for i in 0..it {
        unit_level(ctx, &mut rng);
        if i == 0 && ctx.sample_cap() {
            ctx.sample(json!({"level": "try_new", "mutation_classes": 40, "cache_states": ["no-cache", "genuine", "conflicting-version", "last-flag-twin", "commitment of the slice living at the claimed (slot, slice)"], "keys": ["leader-key", "other-key"]}));
        }
    }
    let rt = tokio::runtime::Builder::new_current_thread().enable_all().start_paused(true).build().map_err(|e| e.to_string())?;
    let mut rng = ctx.rng("blockstore");
    let it = ctx.iters(640, 60_000);
    for _ in 0..it {
        rt.block_on(tokio::task::unconstrained(blockstore_level(ctx, &mut rng)));
    }
    if LAYOUT_MISMATCH.load(std::sync::atomic::Ordering::Relaxed) {
        ctx.violation("C15 the crate's slice commitment differs from the documented Merkle construction over the same shreds", "reference root != root in ValidatedShred::commitment()", json!(null));
    }
    Ok(())
}
