//! One module per property.

use crate::evidence::Ctx;

pub mod c05;
pub mod c09;
pub mod cluster_props;
pub mod pool_props;
pub mod c11;
pub mod c12;
pub mod c13;
pub mod c14;
pub mod c15;
pub mod c16;
pub mod c17;
pub mod c19;
pub mod c20;

pub fn run(ctx: &mut Ctx) -> Result<(), String> {
    match ctx.prop.as_str() {
        "C01" => cluster_props::run_c01(ctx),
        "C02" => cluster_props::run_c02(ctx),
        "C03" => pool_props::run(ctx, "C03", 480, 40_000).map(|_| cluster_props::run_c03_nodes(ctx, 16, 480)),
        "C04" => pool_props::run(ctx, "C04", 480, 40_000),
        "C05" => c05::run(ctx),
        "C06" => pool_props::run(ctx, "C06", 480, 40_000),
        "C07" => pool_props::run(ctx, "C07", 480, 40_000),
        "C08" => pool_props::run(ctx, "C08", 480, 40_000),
        "C18" => pool_props::run(ctx, "C18", 320, 20_000).and_then(|_| c05::run_votor(ctx, 240, 12_000)),
        "C09" => c09::run(ctx),
        "C10" => cluster_props::run_c10(ctx),
        "C11" => c11::run(ctx),
        "C12" => c12::run(ctx),
        "C13" => c13::run(ctx),
        "C14" => c14::run(ctx),
        "C15" => c15::run(ctx),
        "C16" => c16::run(ctx),
        "C17" => c17::run(ctx),
        "C19" => c19::run(ctx),
        "C20" => c20::run(ctx),
        other => Err(format!("unknown property {other}")),
    }
}
