//! One module per property.

use crate::evidence::Ctx;

pub mod c15;
pub mod c20;

pub fn run(ctx: &mut Ctx) -> Result<(), String> {
    match ctx.prop.as_str() {
        "C15" => c15::run(ctx),
        "C20" => c20::run(ctx),
        other => Err(format!("unknown property {other}")),
    }
}
