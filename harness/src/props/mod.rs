//! One module per property.

use crate::evidence::Ctx;

pub mod c09;
pub mod c11;
pub mod c12;
pub mod c15;
pub mod c16;
pub mod c17;
pub mod c19;
pub mod c20;

pub fn run(ctx: &mut Ctx) -> Result<(), String> {
    match ctx.prop.as_str() {
        "C09" => c09::run(ctx),
        "C11" => c11::run(ctx),
        "C12" => c12::run(ctx),
        "C15" => c15::run(ctx),
        "C16" => c16::run(ctx),
        "C17" => c17::run(ctx),
        "C19" => c19::run(ctx),
        "C20" => c20::run(ctx),
        other => Err(format!("unknown property {other}")),
    }
}
