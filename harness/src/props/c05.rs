//! C05 A correct node's own votes obey the voting rules under every event order.
//! (a) real Votor wired to a real PoolImpl as in `Alpenglow::new`, driven by synthetic
//!     blockstore events, other validators' votes / certificates and virtual-time timeouts;
//! (b) the same rules judged from the wire in whole-cluster executions (cluster_props).

use std::collections::{BTreeMap, BTreeSet};
use std::sync::atomic::{AtomicU64, Ordering};
use std::sync::{Arc, Mutex};
use std::time::Duration;

use alpenglow::All2All;
use alpenglow::consensus::{BlockInfo, BlockstoreEvent, ConsensusMessage, Pool, PoolEvent, PoolImpl, ValidatedCert, ValidatedVote, Votor};
use alpenglow::types::Slot;
use rand::prelude::*;
use serde_json::{Value, json};
use tokio::sync::mpsc;

use crate::common::{Epoch, SRng, gen_stakes, hex, make_epoch, pick_family};
use crate::evidence::{Ctx, take_panics};
use crate::model::{Bid, H32, MVote};
use crate::poolsim::{from_bid, mcert_of, mvote_of, to_bh, to_bid};
use crate::wire::*;
use crate::world::World;

static SEQ: AtomicU64 = AtomicU64::new(0);
fn seq() -> u64 {
    SEQ.fetch_add(1, Ordering::SeqCst)
}

#[derive(Clone, Debug)]
enum Rec {
    ToVotorPool(PoolEvent),
    ToVotorBlock(u64, Option<(H32, Bid)>, &'static str),
    Broadcast(ConsensusMessage),
}

type Log = Arc<Mutex<Vec<(u64, Duration, Rec)>>>;

struct RecA2A {
    log: Log,
    out: Arc<Mutex<Vec<ConsensusMessage>>>,
    start: tokio::time::Instant,
}

impl All2All for RecA2A {
    async fn broadcast(&self, msg: &ConsensusMessage) -> std::io::Result<()> {
        self.log.lock().unwrap().push((seq(), self.start.elapsed(), Rec::Broadcast(msg.clone())));
        self.out.lock().unwrap().push(msg.clone());
        Ok(())
    }
    async fn receive(&self) -> std::io::Result<ConsensusMessage> {
        std::future::pending().await
    }
}

#[derive(Clone, Debug)]
enum Input {
    Vote(MVote),
    Cert(CK, u64, Option<H32>, Vec<usize>, Vec<usize>),
    /// a notarization certificate that carries the node's own signature: delivered only if the node under
    /// test really cast that notarization vote (the harness holds every key, but must not sign for it)
    NotarCertIfOwnVoted(u64, H32, Vec<usize>),
    FirstShred(u64),
    Block(Bid, Bid),
    Invalid(u64),
    Standstill,
}

async fn quiesce() {
    // with the clock paused the runtime advances time only when every task is idle, so a 1 ns sleep
    // returns exactly at quiescence and before any protocol timer (>= 10 ms) can fire
    tokio::time::sleep(Duration::from_nanos(1)).await;
}

/// Reference model of what the node's pool has been given (the statement's safe-to conditions, in exact
/// integers): a fallback vote is justified only if its condition held at this node when it was cast.
struct Shadow {
    m: crate::model::PoolModel,
    s2n: BTreeSet<Bid>,
    s2s: BTreeSet<u64>,
    /// (sequence number at the end of the step, conditions that held at some point up to then)
    marks: Vec<(u64, BTreeSet<Bid>, BTreeSet<u64>)>,
}

impl Shadow {
    fn absorb(&mut self, e: crate::model::StepExpect) {
        self.s2n.extend(e.s2n_allowed.iter().copied());
        self.s2s.extend(e.s2s_allowed.iter().copied());
    }
    fn vote(&mut self, v: &MVote) {
        let (_, e) = self.m.apply_vote(v);
        self.absorb(e);
    }
    fn cert(&mut self, c: &crate::model::MCert) {
        let (_, e) = self.m.apply_cert(c);
        self.absorb(e);
    }
    fn block(&mut self, b: Bid, p: Bid) {
        let e = self.m.apply_block(b, p);
        self.absorb(e);
    }
    fn mark(&mut self) {
        self.marks.push((seq(), self.s2n.clone(), self.s2s.clone()));
    }
    fn held_at(&self, q: u64) -> Option<&(u64, BTreeSet<Bid>, BTreeSet<u64>)> {
        self.marks.iter().find(|m| m.0 > q)
    }
}

struct Plan {
    ep: Epoch,
    stakes: Vec<u64>,
    family: &'static str,
    own: usize,
    slots: u64,
    windows: u64,
    jitter_ms: u64,
    slot_ms: u64,
    sched: Vec<(u64, Input)>,
    tag: &'static str,
}

/// Random plan: a world a < 20 % adversary could cause, delivered with jitter.
fn world_plan(ctx: &mut Ctx, rng: &mut SRng) -> Option<Plan> {
    let n = rng.random_range(3..=9usize);
    let family = pick_family(rng, &["equal", "smallint", "exact10", "heavy", "whale60"]);
    let stakes = gen_stakes(rng, family, n);
    let ep: Epoch = make_epoch(rng, &stakes, family);
    let windows = rng.random_range(2..=5u64);
    let w = World::generate(rng, &ep, windows, 1);
    // The node under test casts its own votes (the real Votor decides them), so the world must not depend
    // on them: it takes the place of one of the validators the world treats as untrusted (< 20 % of the
    // stake in total), whose planned votes are dropped. Certificates that would need its signature are
    // not offered either.
    let Some(&own) = w.byz.iter().next() else {
        ctx.count("worlds-without-untrusted-validator-skipped");
        return None;
    };
    // schedule: world votes of the *other* validators, blocks as blockstore events, certificates
    let jitter_ms: u64 = *[50u64, 300, 1200, 4000].choose(rng).unwrap();
    let slot_ms: u64 = *[150u64, 400, 900].choose(rng).unwrap();
    let mut sched: Vec<(u64, Input)> = Vec::new();
    let at = |rng: &mut SRng, slot: u64, bias: i64| -> u64 { ((slot as i64 * slot_ms as i64 + bias).max(0) as u64) + rng.random_range(0..=jitter_ms) };
    for v in &w.votes {
        if v.signer == own {
            continue;
        }
        let bias = match v.kind {
            VK::Notar | VK::Skip => 60,
            VK::NotarFallback | VK::SkipFallback => 200,
            VK::Final => 260,
        };
        sched.push((at(rng, v.slot, bias), Input::Vote(v.clone())));
    }
    for b in &w.blocks {
        if rng.random_bool(0.9) {
            let late = if rng.random_bool(0.8) { 0 } else { 900 };
            let t = at(rng, b.id.0, late);
            sched.push((t.saturating_sub(20), Input::FirstShred(b.id.0)));
            sched.push((t, Input::Block(b.id, b.parent)));
        }
    }
    for s in 1..=w.slots {
        if rng.random_bool(0.05) {
            sched.push((at(rng, s, 100), Input::Invalid(s)));
        }
    }
    for (k, s, h, a, b) in w.possible_certs(rng, &ep) {
        if a.contains(&own) || b.contains(&own) {
            continue;
        }
        if rng.random_bool(0.4) {
            sched.push((at(rng, s, 300), Input::Cert(k, s, h, a, b)));
        }
    }
    let nst = if ctx.prop == "C18" { rng.random_range(3..12) } else { rng.random_range(0..4) };
    for _ in 0..nst {
        sched.push((rng.random_range(0..(w.slots + 4) * slot_ms), Input::Standstill));
    }
    Some(Plan { ep, stakes, family, own, slots: w.slots, windows, jitter_ms, slot_ms, sched, tag: "random-world" })
}

/// Directed plan: an equivocating leader's two blocks X, Y in one slot with the stake sitting on the
/// thresholds: the node under test u and a co-voter a notarize X (with the Byzantine z: exactly >= 60 %),
/// c1, c2 notarize Y (>= 40 %, possibly only with z's second vote). Every order of "the 40 % for Y become
/// visible" and "the notarization certificate for X arrives (as a certificate message, or as the last
/// individual votes)" is produced; the slot is the first of the run or the first of the next window.
fn rival_plan(rng: &mut SRng) -> Plan {
    // variant "certificate before block": the notarization certificate for X is formed without the node under
    // test (a + z >= 60 %) and reaches it before block X does, so its notar and final votes are cast in one
    // go when the block arrives; the 40 % for Y become visible only afterwards
    let cert_first = rng.random_bool(0.3);
    let z = rng.random_range(1..=19u64);
    let c = rng.random_range(40 - z.min(39)..=40).max(2);
    let ua = 100 - z - c;
    // neither X-group node may reach safe-to-skip on its own stake (40 %) before the certificate arrives
    let mut u = rng.random_range(ua.saturating_sub(39).max(1)..=39.min(ua - 1));
    if cert_first {
        // a alone carries the certificate together with z
        u = rng.random_range(1..=(ua + z).saturating_sub(60).max(1).min(ua - 1));
    }
    let a = ua - u;
    let c1 = rng.random_range(1..c);
    let c2 = c - c1;
    let mut roles: Vec<usize> = (0..5).collect();
    roles.shuffle(rng);
    let (iz, iu, ia, ic1, ic2) = (roles[0], roles[1], roles[2], roles[3], roles[4]);
    let mut stakes = vec![0u64; 5];
    stakes[iz] = z;
    stakes[iu] = u;
    stakes[ia] = a;
    stakes[ic1] = c1;
    stakes[ic2] = c2;
    let ep: Epoch = make_epoch(rng, &stakes, "rival-thresholds");
    let slot: u64 = *[1u64, 4, 5].choose(rng).unwrap();
    let mut lbl = |rng: &mut SRng| {
        let mut h = [0u8; 32];
        rng.fill_bytes(&mut h);
        h
    };
    let mut sched: Vec<(u64, Input)> = Vec::new();
    let mut parent: Bid = crate::model::GENESIS;
    let mut t = 0u64;
    if slot >= 4 {
        // window 0 is skipped by certificates that do not need the node's signature
        for s in 1..=3u64 {
            sched.push((t, Input::Cert(CK::Skip, s, None, vec![ia, ic1, ic2, iz], vec![])));
            t += 1;
        }
    }
    if slot == 5 {
        // an ordinary block in the window's first slot, notarized by everybody else
        let p = (4u64, lbl(rng));
        sched.push((t, Input::FirstShred(4)));
        sched.push((t + 1, Input::Block(p, parent)));
        for (k, i) in [ia, ic1, ic2, iz].into_iter().enumerate() {
            sched.push((t + 2 + k as u64, Input::Vote(MVote { signer: i, kind: VK::Notar, slot: 4, hash: Some(p.1) })));
        }
        parent = p;
        t += 10;
    }
    let x = (slot, lbl(rng));
    let y = (slot, lbl(rng));
    sched.push((t, Input::FirstShred(slot)));
    if cert_first && (a + z) * 5 >= 300 {
        let mut signers = vec![iz, ia];
        signers.sort_unstable();
        sched.push((t + 1, Input::Cert(CK::Notar, slot, Some(x.1), signers, vec![])));
        sched.push((t + 10, Input::Block(x, parent)));
        sched.push((t + 12 + rng.random_range(0..20), Input::Block(y, parent)));
        let mut yv = vec![ic1, ic2, iz];
        yv.shuffle(rng);
        for (k, i) in yv.into_iter().enumerate() {
            sched.push((t + 50 + k as u64, Input::Vote(MVote { signer: i, kind: VK::Notar, slot, hash: Some(y.1) })));
        }
        if rng.random_bool(0.5) {
            // ... or the others time out instead: skip votes making safe-to-skip true
            for (k, i) in [ic1, ic2].into_iter().enumerate() {
                sched.push((t + 70 + k as u64, Input::Vote(MVote { signer: i, kind: VK::Skip, slot: slot + 1, hash: None })));
            }
        }
        if rng.random_bool(0.3) {
            sched.push((t + rng.random_range(0..200), Input::Standstill));
        }
        return Plan { ep, stakes, family: "rival-thresholds", own: iu, slots: slot + 3, windows: 2, jitter_ms: 0, slot_ms: 400, sched, tag: "directed-rival-cert-before-block" };
    }
    sched.push((t + 1, Input::Block(x, parent)));
    sched.push((t + 2 + rng.random_range(0..30), Input::Block(y, parent)));
    // the two competing arrivals, in either order
    let y_first = rng.random_bool(0.6);
    let (ty, tx) = if y_first { (t + 40, t + 80) } else { (t + 80, t + 40) };
    let mut yv = vec![ic1, ic2];
    if c < 40 || rng.random_bool(0.5) {
        yv.push(iz);
    }
    yv.shuffle(rng);
    for (k, i) in yv.into_iter().enumerate() {
        sched.push((ty + k as u64, Input::Vote(MVote { signer: i, kind: VK::Notar, slot, hash: Some(y.1) })));
    }
    if rng.random_bool(0.7) {
        let mut signers = vec![iz, iu, ia];
        signers.sort_unstable();
        sched.push((tx, Input::NotarCertIfOwnVoted(slot, x.1, signers)));
    } else {
        for (k, i) in [ia, iz].into_iter().enumerate() {
            sched.push((tx + k as u64, Input::Vote(MVote { signer: i, kind: VK::Notar, slot, hash: Some(x.1) })));
        }
    }
    // afterwards: what the others would send next
    for (k, i) in [ic1, ic2].into_iter().enumerate() {
        if rng.random_bool(0.7) {
            sched.push((t + 120 + k as u64, Input::Vote(MVote { signer: i, kind: VK::NotarFallback, slot, hash: Some(x.1) })));
        }
    }
    if rng.random_bool(0.5) {
        sched.push((t + 130, Input::Vote(MVote { signer: ia, kind: VK::NotarFallback, slot, hash: Some(y.1) })));
    }
    if rng.random_bool(0.3) {
        sched.push((t + rng.random_range(0..200), Input::Standstill));
    }
    Plan { ep, stakes, family: "rival-thresholds", own: iu, slots: slot + 3, windows: 2, jitter_ms: 0, slot_ms: 400, sched, tag: "directed-rival-blocks" }
}

/// Calls into the node's pool on behalf of the network. A panic inside the pool is the pool's defect (C03 /
/// C07 / C08 own those clauses): it ends this run and is attributed there, it is not a harness failure.
macro_rules! pool_call {
    ($ctx:expr, $dead:ident, $call:expr) => {
        if !$dead {
            if let Err(p) = crate::evidence::guarded_async($call).await {
                let owner = if p.file.contains("parent_ready") { "C07" } else if p.file.contains("finality") { "C08" } else { "C03" };
                $ctx.violation(format!("{owner} pool call {}", p.sig()), format!("{} at {}:{}", p.msg, p.file, p.line), json!(null));
                $ctx.count("runs-ended-by-a-pool-panic");
                $dead = true;
            }
        }
    };
}

async fn one_run(ctx: &mut Ctx, rng: &mut SRng, directed: bool) {
    let plan = if directed {
        rival_plan(rng)
    } else {
        match world_plan(ctx, rng) {
            Some(p) => p,
            None => return,
        }
    };
    let Plan { ep, stakes, family, own, slots, windows, jitter_ms, slot_ms, mut sched, tag } = plan;
    let n = stakes.len();
    ctx.count(&format!("plan:{tag}"));
    let log: Log = Default::default();
    let out: Arc<Mutex<Vec<ConsensusMessage>>> = Default::default();
    let start = tokio::time::Instant::now();
    // wiring as in Alpenglow::new, with a tap on the Pool -> Votor channel
    let (pool_tx, mut pool_rx0) = mpsc::channel::<PoolEvent>(1 << 14);
    let (votor_pool_tx, votor_pool_rx) = mpsc::channel::<PoolEvent>(1 << 14);
    let (bs_tx, bs_rx) = mpsc::channel::<BlockstoreEvent>(1 << 14);
    let (repair_tx, mut repair_rx) = mpsc::channel(1 << 14);
    let mut pool = PoolImpl::new(ep.own(own), pool_tx, repair_tx);
    let mut pool_dead = false;
    let mut shadow = Shadow { m: crate::model::PoolModel::new(&ep.stakes, own), s2n: BTreeSet::new(), s2s: BTreeSet::new(), marks: Vec::new() };
    let a2a = Arc::new(RecA2A { log: log.clone(), out: out.clone(), start });
    let mut votor = Votor::new(alpenglow::ValidatorIndex::new(own as u64), ep.vsks[own].clone(), votor_pool_rx, bs_rx, a2a);
    let votor_task = tokio::spawn(async move { votor.voting_loop().await });
    let flog = log.clone();
    let fwd = tokio::spawn(async move {
        while let Some(e) = pool_rx0.recv().await {
            flog.lock().unwrap().push((seq(), start.elapsed(), Rec::ToVotorPool(e.clone())));
            if votor_pool_tx.send(e).await.is_err() {
                break;
            }
        }
    });
    sched.sort_by_key(|x| x.0);
    let mut history: Vec<Value> = Vec::new();
    let mut standstill_bundles: Vec<(u64, Vec<Vec<u8>>)> = Vec::new();
    let end_ms = (slots + 8) * slot_ms.max(400) + 4000;
    let mut idx = 0;
    let mut now_ms = 0u64;
    while now_ms <= end_ms && !pool_dead {
        // deliver everything scheduled up to now
        while idx < sched.len() && sched[idx].0 <= now_ms {
            let (t, inp) = sched[idx].clone();
            idx += 1;
            ctx.eval();
            match &inp {
                Input::Vote(mv) => {
                    let v = sign_vote(&ep, mv.signer, mv.kind, mv.slot, mv.hash.as_ref().map(to_bh).as_ref());
                    if let Ok(vv) = ValidatedVote::try_new(v, &ep.info) {
                        pool_call!(ctx, pool_dead, pool.add_vote(vv));
                        shadow.vote(mv);
                    }
                    ctx.count("input:vote");
                }
                Input::Cert(k, s, h, a, b) => {
                    if let Some(c) = build_cert(&ep, *k, *s, h.as_ref(), a, b).decode() {
                        if let Ok(vc) = ValidatedCert::try_new(c.clone(), &ep.info) {
                            pool_call!(ctx, pool_dead, pool.add_cert(vc));
                            shadow.cert(&mcert_of(&c));
                        }
                    }
                    ctx.count("input:cert");
                }
                Input::NotarCertIfOwnVoted(sl, h, signers) => {
                    let voted = log.lock().unwrap().iter().any(|(_, _, r)| matches!(r, Rec::Broadcast(ConsensusMessage::Vote(v)) if { let m = mvote_of(v); m.kind == VK::Notar && m.slot == *sl && m.hash == Some(*h) }));
                    if voted {
                        if let Some(c) = build_cert(&ep, CK::Notar, *sl, Some(h), signers, &[]).decode() {
                            if let Ok(vc) = ValidatedCert::try_new(c.clone(), &ep.info) {
                                pool_call!(ctx, pool_dead, pool.add_cert(vc));
                                shadow.cert(&mcert_of(&c));
                            }
                        }
                        ctx.count("input:notar-cert-with-own-signature");
                    } else {
                        ctx.count("input:notar-cert-with-own-signature-withheld");
                    }
                }
                Input::FirstShred(s) => {
                    log.lock().unwrap().push((seq(), start.elapsed(), Rec::ToVotorBlock(*s, None, "first-shred")));
                    let _ = bs_tx.send(BlockstoreEvent::FirstShred(Slot::new(*s))).await;
                    ctx.count("input:first-shred");
                }
                Input::Block(b, p) => {
                    // as the node does: announce to Votor (blockstore) and register in the pool
                    log.lock().unwrap().push((seq(), start.elapsed(), Rec::ToVotorBlock(b.0, Some((b.1, *p)), "block")));
                    let info = BlockInfo::verif_new(to_bh(&b.1), to_bid(p));
                    let _ = bs_tx.send(BlockstoreEvent::Block { slot: Slot::new(b.0), block_info: info }).await;
                    pool_call!(ctx, pool_dead, pool.add_block(to_bid(b), to_bid(p)));
                    shadow.block(*b, *p);
                    ctx.count("input:block");
                }
                Input::Invalid(s) => {
                    log.lock().unwrap().push((seq(), start.elapsed(), Rec::ToVotorBlock(*s, None, "invalid-block")));
                    let _ = bs_tx.send(BlockstoreEvent::InvalidBlock(Slot::new(*s))).await;
                    ctx.count("input:invalid-block");
                }
                Input::Standstill => {
                    pool_call!(ctx, pool_dead, pool.recover_from_standstill());
                    ctx.count("input:standstill");
                }
            }
            if history.len() < 600 {
                history.push(json!({"t_ms": t, "input": format!("{inp:?}").chars().take(140).collect::<String>()}));
            }
            // loop the node's own broadcasts back into its pool, as the network does
            loop {
                quiesce().await;
                while repair_rx.try_recv().is_ok() {}
                let msgs: Vec<ConsensusMessage> = std::mem::take(&mut *out.lock().unwrap());
                if msgs.is_empty() {
                    break;
                }
                for m in msgs {
                    match m {
                        ConsensusMessage::Vote(v) => {
                            if let Ok(vv) = ValidatedVote::try_new(v.clone(), &ep.info) {
                                pool_call!(ctx, pool_dead, pool.add_vote(vv));
                                shadow.vote(&mvote_of(&v));
                            }
                        }
                        ConsensusMessage::Cert(c) => {
                            if let Ok(vc) = ValidatedCert::try_new(c.clone(), &ep.info) {
                                pool_call!(ctx, pool_dead, pool.add_cert(vc));
                                shadow.cert(&mcert_of(&c));
                            }
                        }
                    }
                }
            }
            quiesce().await;
            shadow.mark();
            if matches!(inp, Input::Standstill) {
                // what the pool asked Votor to re-broadcast
                let l = log.lock().unwrap();
                if let Some((s, _, Rec::ToVotorPool(PoolEvent::Standstill(_, certs, votes)))) = l.iter().rev().find(|(_, _, r)| matches!(r, Rec::ToVotorPool(PoolEvent::Standstill(..)))) {
                    let mut items: Vec<Vec<u8>> = certs.iter().map(|c| ser(&ConsensusMessage::Cert(c.clone()))).collect();
                    items.extend(votes.iter().map(|v| ser(&ConsensusMessage::Vote(v.clone()))));
                    standstill_bundles.push((*s, items));
                }
            }
        }
        // advance virtual time (timeouts fire), then loop broadcasts back
        tokio::time::sleep(Duration::from_millis(10)).await;
        now_ms += 10;
        let msgs: Vec<ConsensusMessage> = std::mem::take(&mut *out.lock().unwrap());
        for m in msgs {
            match m {
                ConsensusMessage::Vote(v) => {
                    if let Ok(vv) = ValidatedVote::try_new(v.clone(), &ep.info) {
                        pool_call!(ctx, pool_dead, pool.add_vote(vv));
                        shadow.vote(&mvote_of(&v));
                    }
                }
                ConsensusMessage::Cert(c) => {
                    if let Ok(vc) = ValidatedCert::try_new(c.clone(), &ep.info) {
                        pool_call!(ctx, pool_dead, pool.add_cert(vc));
                        shadow.cert(&mcert_of(&c));
                    }
                }
            }
        }
        while repair_rx.try_recv().is_ok() {}
        quiesce().await;
        shadow.mark();
        if votor_task.is_finished() {
            break;
        }
    }
    quiesce().await;
    shadow.mark();
    // ------------------------------------------------------------------ oracle
    let recs: Vec<(u64, Duration, Rec)> = log.lock().unwrap().clone();
    let cfgj = json!({"n": n, "stakes": stakes, "family": family, "own": own, "windows": windows, "jitter_ms": jitter_ms, "slot_ms": slot_ms, "plan": tag});
    let wit = |e: Value| json!({"config": cfgj, "inputs": history, "detail": e});
    let panics = take_panics();
    if votor_task.is_finished() || panics.iter().any(|p| p.in_repo()) {
        let p = panics.iter().find(|p| p.in_repo());
        ctx.violation(format!("C05 votor task died {}", p.map(|p| p.sig()).unwrap_or_default()), p.map(|p| format!("{} at {}:{}", p.msg, p.file, p.line)).unwrap_or_default(), wit(json!(null)));
    }
    // own votes in emission order
    let mut own_votes: Vec<(u64, MVote, alpenglow::consensus::Vote)> = Vec::new();
    for (s, _, r) in &recs {
        if let Rec::Broadcast(ConsensusMessage::Vote(v)) = r {
            let mv = mvote_of(v);
            // standstill re-broadcasts repeat earlier votes: only first emissions are votes being cast
            if !own_votes.iter().any(|(_, x, _)| *x == mv) {
                own_votes.push((*s, mv, v.clone()));
            }
        }
    }
    ctx.count_n("own-votes-cast", own_votes.len() as u64);
    let before = |s: u64, pred: &dyn Fn(&Rec) -> bool| -> bool { recs.iter().any(|(q, _, r)| *q < s && pred(r)) };
    let mut per_slot: BTreeMap<u64, Vec<&(u64, MVote, alpenglow::consensus::Vote)>> = BTreeMap::new();
    for v in &own_votes {
        per_slot.entry(v.1.slot).or_default().push(v);
    }
    for (sq, mv, v) in &own_votes {
        ctx.eval();
        ctx.count(&format!("own-vote:{}", mv.kind.name()));
        // R6: signed with own key and index
        if mv.signer != own || ValidatedVote::try_new(v.clone(), &ep.info).is_err() {
            ctx.violation("C05 own vote does not verify under the node's key and index", format!("{mv:?}"), wit(json!(null)));
        }
        let slot = mv.slot;
        let in_slot = &per_slot[&slot];
        let earlier: Vec<&MVote> = in_slot.iter().filter(|x| x.0 < *sq).map(|x| &x.1).collect();
        let later: Vec<&MVote> = in_slot.iter().filter(|x| x.0 > *sq).map(|x| &x.1).collect();
        let state = format!("{}{}{}", if earlier.iter().any(|e| e.kind == VK::Notar) { "N" } else { "-" }, if earlier.iter().any(|e| e.kind == VK::Skip) { "S" } else { "-" }, if earlier.iter().any(|e| matches!(e.kind, VK::NotarFallback | VK::SkipFallback)) { "f" } else { "-" });
        ctx.distinct(format!("vote:{}:after[{}]:{}", mv.kind.name(), state, if slot % 4 == 0 { "window-start" } else { "in-window" }));
        match mv.kind {
            VK::Notar | VK::Skip => {
                // R1
                if earlier.iter().any(|e| matches!(e.kind, VK::Notar | VK::Skip)) {
                    ctx.violation("C05 more than one initial vote in a slot", format!("slot {slot}: {:?} after {:?}", mv.kind, earlier.iter().map(|e| e.kind.name()).collect::<Vec<_>>()), wit(json!(null)));
                }
                if mv.kind == VK::Notar {
                    let h = mv.hash.unwrap();
                    // R2: the block was announced, and its parent is acceptable
                    let announced: Option<Bid> = recs.iter().filter(|(q, _, _)| q < sq).find_map(|(_, _, r)| match r {
                        Rec::ToVotorBlock(s, Some((bh, p)), "block") if *s == slot && *bh == h => Some(*p),
                        _ => None,
                    });
                    match announced {
                        None => ctx.violation("C05 notarized a block that was never announced to the voting component", format!("slot {slot} block {}", hex(&h[..4])), wit(json!(null))),
                        Some(p) => {
                            let ok = if slot % 4 == 0 {
                                before(*sq, &|r| matches!(r, Rec::ToVotorPool(PoolEvent::ParentReady { slot: s, parent }) if s.inner() == slot && from_bid(parent) == p))
                            } else {
                                // genesis (slot 0) counts as the block notarized in slot 0
                                (p == crate::model::GENESIS && slot == 1) || (p.0 + 1 == slot && own_votes.iter().any(|(q, x, _)| q < sq && x.kind == VK::Notar && x.slot == p.0 && x.hash == Some(p.1)))
                            };
                            if !ok {
                                ctx.violation(
                                    format!("C05 notarized a block whose parent is not acceptable ({})", if slot % 4 == 0 { "window start without parent-ready" } else { "parent is not the block notarized in the preceding slot" }),
                                    format!("slot {slot} block {} parent {}:{}", hex(&h[..4]), p.0, hex(&p.1[..4])),
                                    wit(json!(null)),
                                );
                            }
                        }
                    }
                }
            }
            VK::Final => {
                // R3
                let notarized = earlier.iter().find(|e| e.kind == VK::Notar).and_then(|e| e.hash);
                match notarized {
                    None => ctx.violation("C05 final vote without a preceding notar vote", format!("slot {slot}"), wit(json!(null))),
                    Some(h) => {
                        let cert = before(*sq, &|r| matches!(r, Rec::ToVotorPool(PoolEvent::CertCreated(c)) if { let m = mcert_of(c); m.kind == CK::Notar && m.slot == slot && m.hash == Some(h) }));
                        if !cert {
                            ctx.violation("C05 final vote before the notarization certificate of the notarized block was seen", format!("slot {slot}"), wit(json!(null)));
                        }
                    }
                }
                if earlier.iter().any(|e| matches!(e.kind, VK::Skip | VK::SkipFallback | VK::NotarFallback)) {
                    ctx.violation("C05 final vote in a slot with an earlier skip / fallback vote", format!("slot {slot}"), wit(json!(null)));
                }
                // R4
                if later.iter().any(|e| matches!(e.kind, VK::Skip | VK::SkipFallback | VK::NotarFallback)) {
                    ctx.violation("C05 skip / fallback vote after a final vote", format!("slot {slot}"), wit(json!(null)));
                }
            }
            VK::NotarFallback => {
                let h = mv.hash.unwrap();
                if !earlier.iter().any(|e| matches!(e.kind, VK::Notar | VK::Skip)) {
                    ctx.violation("C05 notar-fallback before the initial vote", format!("slot {slot}"), wit(json!(null)));
                }
                if !before(*sq, &|r| matches!(r, Rec::ToVotorPool(PoolEvent::SafeToNotar(b)) if from_bid(b) == (slot, h))) {
                    ctx.violation("C05 notar-fallback without a preceding safe-to-notar", format!("slot {slot}"), wit(json!(null)));
                }
                if let Some((_, n, _)) = shadow.held_at(*sq) {
                    ctx.count("fallback-votes-judged-against-the-condition");
                    if !n.contains(&(slot, h)) {
                        ctx.violation("C05 notar-fallback cast although the safe-to-notar condition never held at the node", format!("slot {slot} block {}", hex(&h[..4])), wit(json!(null)));
                    }
                }
            }
            VK::SkipFallback => {
                if !earlier.iter().any(|e| matches!(e.kind, VK::Notar | VK::Skip)) {
                    ctx.violation("C05 skip-fallback before the initial vote", format!("slot {slot}"), wit(json!(null)));
                }
                if !before(*sq, &|r| matches!(r, Rec::ToVotorPool(PoolEvent::SafeToSkip(s)) if s.inner() == slot)) {
                    ctx.violation("C05 skip-fallback without a preceding safe-to-skip", format!("slot {slot}"), wit(json!(null)));
                }
                if let Some((_, _, k)) = shadow.held_at(*sq) {
                    ctx.count("fallback-votes-judged-against-the-condition");
                    if !k.contains(&slot) {
                        ctx.violation("C05 skip-fallback cast although the safe-to-skip condition never held at the node", format!("slot {slot}"), wit(json!(null)));
                    }
                }
            }
        }
    }
    // R6: own votes are never a slashable combination
    {
        let (ptx, _prx) = mpsc::channel(1 << 14);
        let (rtx, _rrx) = mpsc::channel(1 << 14);
        let other = (own + 1) % n;
        let mut fresh = PoolImpl::new(ep.own(other), ptx, rtx);
        for (_, mv, v) in &own_votes {
            if let Ok(vv) = ValidatedVote::try_new(v.clone(), &ep.info) {
                if let Err(alpenglow::consensus::AddVoteError::Slashable(o)) = fresh.add_vote(vv).await {
                    ctx.violation("C05 the node's own votes form a slashable combination", format!("{o:?} at {mv:?}"), wit(json!(null)));
                    break;
                }
            }
        }
    }
    // C18 clause: every standstill bundle is forwarded completely
    for (s, items) in &standstill_bundles {
        ctx.eval();
        ctx.count("standstill-bundles-to-votor");
        let sent: BTreeSet<Vec<u8>> = recs.iter().filter(|(q, _, _)| q > s).filter_map(|(_, _, r)| if let Rec::Broadcast(m) = r { Some(ser(m)) } else { None }).collect();
        if let Some(missing) = items.iter().find(|i| !sent.contains(*i)) {
            ctx.violation("C18 voting component did not re-broadcast an item of the standstill bundle", format!("{} items, missing one of {} bytes", items.len(), missing.len()), wit(json!(null)));
        }
    }
    ctx.count("votor-runs");
    if ctx.sample_cap() {
        ctx.sample(json!({"config": cfgj, "own_votes": own_votes.iter().take(12).map(|(_, m, _)| format!("{}@{}", m.kind.name(), m.slot)).collect::<Vec<_>>(), "inputs": history.len()}));
    }
    votor_task.abort();
    fwd.abort();
}

/// The Votor + Pool harness alone; the C18 check uses it for its clause "the voting component forwards the
/// standstill bundle whatever its own pruning state" (violations of other properties' clauses are dropped
/// by `Ctx::violation`).
pub fn run_votor(ctx: &mut Ctx, runs_q: u64, runs_t: u64) -> Result<(), String> {
    let rt = tokio::runtime::Builder::new_current_thread().enable_all().start_paused(true).build().map_err(|e| e.to_string())?;
    let mut rng = ctx.rng("votor");
    let runs = ctx.iters(runs_q, runs_t);
    for i in 0..runs {
        rt.block_on(tokio::task::unconstrained(one_run(ctx, &mut rng, i % 4 == 3)));
        if ctx.violations.len() > 30 {
            break;
        }
    }
    Ok(())
}

pub fn run(ctx: &mut Ctx) -> Result<(), String> {
    let rt = tokio::runtime::Builder::new_current_thread().enable_all().start_paused(true).build().map_err(|e| e.to_string())?;
    let mut rng = ctx.rng("votor");
    let runs = ctx.iters(400, 24_000);
    for i in 0..runs {
        // every fourth run is the directed rival-blocks script
        rt.block_on(tokio::task::unconstrained(one_run(ctx, &mut rng, i % 4 == 3)));
        if ctx.violations.len() > 30 {
            break;
        }
    }
    // (b) wire level, whole clusters
    crate::props::cluster_props::run_c05_wire(ctx, 16, 600);
    Ok(())
}
