//! C15 Merkle proofs verify exactly for the leaf at the stated position.
//!
//! Oracle: an independent reference tree (padded to 2^h with empty leaves, labels from
//! the module documentation). Leaves are unique and non-empty, so a (leaf, proof) pair
//! is genuine for exactly one position; every alteration must make verification fail.

use alpenglow::crypto::merkle::{
    DoubleMerkleProof, DoubleMerkleRoot, DoubleMerkleTree, MerkleLeaf, MerkleProof, MerkleRoot, PlainMerkleTree, SliceRoot,
};
use alpenglow::crypto::{Hash, MerkleTree};
use rand::prelude::*;
use serde_json::json;
use sha2::{Digest, Sha256};

use crate::common::hex;
use crate::evidence::{Ctx, guarded};

const LEAF_LABEL: &[u8; 32] = b"ALPENGLOW-MERKLE-TREE  LEAF-NODE";
const LEFT_LABEL: &[u8; 32] = b"ALPENGLOW-MERKLE-TREE  LEFT-NODE";
const RIGHT_LABEL: &[u8; 32] = b"ALPENGLOW-MERKLE-TREE RIGHT-NODE";

pub fn ref_leaf(data: &[u8]) -> [u8; 32] {
    let mut h = Sha256::new();
    h.update(LEAF_LABEL);
    h.update(data);
    h.finalize().into()
}

pub fn ref_pair(l: &[u8; 32], r: &[u8; 32]) -> [u8; 32] {
    let mut h = Sha256::new();
    h.update(LEFT_LABEL);
    h.update(l);
    h.update(RIGHT_LABEL);
    h.update(r);
    h.finalize().into()
}

/// Reference tree: all levels of the tree padded with empty leaves to a power of two.
pub struct RefTree {
    pub levels: Vec<Vec<[u8; 32]>>,
    pub n: usize,
}

impl RefTree {
    pub fn new(leaves: &[Vec<u8>]) -> Self {
        let n = leaves.len();
        let width = n.next_power_of_two();
        let mut l0: Vec<[u8; 32]> = leaves.iter().map(|d| ref_leaf(d)).collect();
        l0.resize(width, ref_leaf(&[]));
        let mut levels = vec![l0];
        while levels.last().unwrap().len() > 1 {
            let prev = levels.last().unwrap();
            let next: Vec<[u8; 32]> = prev.chunks(2).map(|c| ref_pair(&c[0], &c[1])).collect();
            levels.push(next);
        }
        Self { levels, n }
    }
    pub fn height(&self) -> usize {
        self.levels.len() - 1
    }
    pub fn width(&self) -> usize {
        self.levels[0].len()
    }
    pub fn root(&self) -> [u8; 32] {
        self.levels.last().unwrap()[0]
    }
    pub fn proof(&self, mut i: usize) -> Vec<[u8; 32]> {
        let mut p = Vec::new();
        for l in 0..self.height() {
            p.push(self.levels[l][i ^ 1]);
            i /= 2;
        }
        p
    }
    /// True iff every leaf right of `i` is an empty leaf.
    pub fn is_last(&self, i: usize) -> bool {
        let e = ref_leaf(&[]);
        self.levels[0][i + 1..].iter().all(|h| *h == e)
    }
}

pub fn to_hash(b: &[u8; 32]) -> Hash {
    wincode::deserialize::<Hash>(b).expect("hash decode")
}

fn to_proof<P: MerkleProof>(p: &[[u8; 32]]) -> P {
    P::from(p.iter().map(to_hash).collect::<Vec<_>>())
}

fn proof_bytes<P: MerkleProof>(p: &P) -> Vec<[u8; 32]> {
    p.as_ref().iter().map(crate::common::hash_bytes).collect()
}

fn unique_leaf(rng: &mut crate::common::SRng, idx: usize, tree_id: u64) -> Vec<u8> {
    let len = rng.random_range(1..40);
    let mut d = vec![0u8; len + 12];
    rng.fill_bytes(&mut d[..len]);
    d[len..len + 8].copy_from_slice(&(idx as u64).to_le_bytes());
    d[len + 8..].copy_from_slice(&(tree_id as u32).to_le_bytes());
    d
}

struct Case<'a, L: MerkleLeaf, R: MerkleRoot, P: MerkleProof> {
    ty: &'static str,
    n: usize,
    leaves: &'a [L],
    raw: &'a [Vec<u8>],
    tree: &'a MerkleTree<L, R, P>,
    rt: &'a RefTree,
    wrong_leaf: &'a L,
}

fn expect<L: MerkleLeaf, R: MerkleRoot, P: MerkleProof>(
    ctx: &mut Ctx,
    c: &Case<L, R, P>,
    class: &str,
    last_variant: bool,
    leaf: &L,
    index: usize,
    root: &[u8; 32],
    proof: &[[u8; 32]],
    want: bool,
    genuine_index: usize,
) {
    let r: R = R::from(to_hash(root));
    let p: P = to_proof(proof);
    let got = guarded(|| {
        if last_variant {
            MerkleTree::<L, R, P>::check_proof_last(leaf, index, &r, &p)
        } else {
            MerkleTree::<L, R, P>::check_proof(leaf, index, &r, &p)
        }
    });
    ctx.eval();
    let fname = if last_variant { "check_proof_last" } else { "check_proof" };
    ctx.distinct(format!("{}:{}:{}:{}", c.ty, c.n, fname, class));
    ctx.count(&format!("{fname}:{}", class.split('[').next().unwrap()));
    let witness = || {
        json!({"tree": c.ty, "leaves": c.n, "function": fname, "class": class, "genuine_index": genuine_index,
               "claimed_index": index as u64, "proof_len": proof.len(), "leaf_hex": hex(leaf.as_ref()),
               "root": hex(root), "proof": proof.iter().map(|h| hex(h)).collect::<Vec<_>>(),
               "all_leaves_hex": if c.n <= 8 { c.raw.iter().map(|l| hex(l)).collect::<Vec<_>>() } else { vec![] }})
    };
    match got {
        Err(p) => {
            let sig = format!("C15 {fname} {} class={}", p.sig(), class_family(class));
            ctx.violation(sig, format!("panic: {} at {}:{}", p.msg, p.file, p.line), witness());
        }
        Ok(g) if g != want => {
            let sig = format!("C15 {fname} returned {g} expected {want} class={}", class_family(class));
            ctx.violation(
                sig,
                format!("{fname}(leaf@{genuine_index}, claimed index {index}, proof_len {}) on a {}-leaf {} tree returned {g}, reference says {want}", proof.len(), c.n, c.ty),
                witness(),
            );
        }
        Ok(_) => {}
    }
}

fn class_family(class: &str) -> &str {
    class
}

fn check_tree<L: MerkleLeaf, R: MerkleRoot, P: MerkleProof>(ctx: &mut Ctx, rng: &mut crate::common::SRng, c: &Case<L, R, P>, indices: &[usize], deep: bool) {
    let root = c.rt.root();
    let h = c.rt.height();
    // root and height agree with the reference
    let got_root = crate::common::hash_bytes(c.tree.get_root().as_hash());
    ctx.eval();
    if got_root != root || c.tree.height() != h {
        ctx.violation(
            format!("C15 tree root/height differs from reference tree={}", c.ty),
            format!("{}-leaf {} tree: root {} height {} vs reference {} {}", c.n, c.ty, hex(&got_root), c.tree.height(), hex(&root), h),
            json!({"tree": c.ty, "leaves": c.n}),
        );
        return;
    }
    let other_root = ref_pair(&root, &root);
    for &i in indices {
        let leaf = &c.leaves[i];
        let gp = match guarded(|| c.tree.create_proof(i)) {
            Ok(p) => proof_bytes(&p),
            Err(p) => {
                ctx.violation(format!("C15 create_proof {}", p.sig()), p.msg.clone(), json!({"tree": c.ty, "leaves": c.n, "index": i}));
                continue;
            }
        };
        let rp = c.rt.proof(i);
        ctx.eval();
        if gp != rp {
            ctx.violation(
                format!("C15 create_proof differs from reference tree={}", c.ty),
                format!("{}-leaf tree index {i}", c.n),
                json!({"tree": c.ty, "leaves": c.n, "index": i, "got": gp.iter().map(|h| hex(h)).collect::<Vec<_>>(), "want": rp.iter().map(|h| hex(h)).collect::<Vec<_>>()}),
            );
            continue;
        }
        // genuine
        expect(ctx, c, "genuine", false, leaf, i, &root, &rp, true, i);
        let is_last = c.rt.is_last(i);
        expect(ctx, c, if is_last { "genuine-last" } else { "genuine-not-last" }, true, leaf, i, &root, &rp, is_last, i);
        // derive_root consistency
        let dr = guarded(|| MerkleTree::<L, R, P>::derive_root(leaf, i, &to_proof::<P>(&rp)));
        ctx.eval();
        match dr {
            Ok(r) if crate::common::hash_bytes(r.as_hash()) == root => {}
            Ok(_) => ctx.violation("C15 derive_root differs from root for genuine proof", format!("{}-leaf tree index {i}", c.n), json!({"tree": c.ty, "leaves": c.n, "index": i})),
            Err(p) => ctx.violation(format!("C15 derive_root {}", p.sig()), p.msg, json!({"tree": c.ty, "leaves": c.n, "index": i})),
        }

        for last_variant in [false, true] {
            // claimed index alterations
            let mut claimed: Vec<(String, usize)> = Vec::new();
            for k in 0..64u32 {
                let f = i ^ (1usize << k);
                claimed.push((format!("index-flip-bit[{}]", if f < c.rt.width() { "in-width" } else { "beyond-width" }), f));
                if let Some(a) = i.checked_add(1usize << k) {
                    claimed.push((format!("index-plus-pow2[{}]", if a < c.rt.width() { "in-width" } else { "beyond-width" }), a));
                }
            }
            for m in [1usize, 2, 3, 5, 1024, 1 << 20] {
                if let Some(a) = c.rt.width().checked_mul(m).and_then(|w| w.checked_add(i)) {
                    claimed.push(("index-plus-width-multiple[beyond-width]".into(), a));
                }
            }
            claimed.push(("index-usize-max[beyond-width]".into(), usize::MAX));
            claimed.push(("index-usize-max-aliased[beyond-width]".into(), (usize::MAX << h.min(63)) | i));
            for _ in 0..8 {
                claimed.push(("index-random-below-2^20".into(), rng.random_range(0..1usize << 20)));
            }
            if deep {
                for j in 0..c.rt.width().min(64) {
                    claimed.push(("index-other-in-width".into(), j));
                }
            }
            for (class, ci) in claimed {
                if ci == i {
                    continue;
                }
                expect(ctx, c, &class, last_variant, leaf, ci, &root, &rp, false, i);
            }
            // wrong leaf, wrong root
            expect(ctx, c, "wrong-leaf", last_variant, c.wrong_leaf, i, &root, &rp, false, i);
            let mut fr = root;
            fr[rng.random_range(0..32)] ^= 1 << rng.random_range(0..8);
            expect(ctx, c, "root-bitflip", last_variant, leaf, i, &fr, &rp, false, i);
            expect(ctx, c, "root-other", last_variant, leaf, i, &other_root, &rp, false, i);
            // proof element corruptions
            for e in 0..rp.len() {
                let mut p = rp.clone();
                p[e][rng.random_range(0..32)] ^= 1 << rng.random_range(0..8);
                expect(ctx, c, "proof-element-bitflip", last_variant, leaf, i, &root, &p, false, i);
                let mut p = rp.clone();
                p[e] = ref_leaf(&[]);
                if p != rp {
                    expect(ctx, c, "proof-element-replaced-by-empty", last_variant, leaf, i, &root, &p, false, i);
                }
                let mut p = rp.clone();
                p.remove(e);
                expect(ctx, c, "proof-element-dropped", last_variant, leaf, i, &root, &p, false, i);
                if e + 1 < rp.len() && rp[e] != rp[e + 1] {
                    let mut p = rp.clone();
                    p.swap(e, e + 1);
                    expect(ctx, c, "proof-elements-swapped", last_variant, leaf, i, &root, &p, false, i);
                }
            }
            // proof lengths 0..=33 by truncation / extension
            for len in 0..=33usize {
                if len == rp.len() {
                    continue;
                }
                let mut p = rp.clone();
                if len < p.len() {
                    p.truncate(len);
                    expect(ctx, c, "proof-truncated", last_variant, leaf, i, &root, &p, false, i);
                } else {
                    let filler_kind = rng.random_range(0..3);
                    while p.len() < len {
                        let lvl = p.len();
                        p.push(match filler_kind {
                            0 => ref_leaf(&[]),
                            1 => empty_root(lvl),
                            _ => {
                                let mut x = [0u8; 32];
                                rng.fill_bytes(&mut x);
                                x
                            }
                        });
                    }
                    let class = match filler_kind {
                        0 => "proof-extended[empty-leaf]",
                        1 => "proof-extended[empty-subtree-roots]",
                        _ => "proof-extended[random]",
                    };
                    expect(ctx, c, class, last_variant, leaf, i, &root, &p, false, i);
                    // extended proof against the root it would derive (a *different* tree): the leaf is
                    // then genuinely at position i of that bigger tree; only judged for check_proof.
                }
            }
        }
    }
}

/// Root of an all-empty subtree of the given height (reference computation).
fn empty_root(height: usize) -> [u8; 32] {
    let mut h = ref_leaf(&[]);
    for _ in 0..height.min(40) {
        h = ref_pair(&h, &h);
    }
    h
}

fn pick_indices(rng: &mut crate::common::SRng, n: usize, all_up_to: usize, sample: usize) -> Vec<usize> {
    if n <= all_up_to {
        return (0..n).collect();
    }
    let mut v = vec![0, 1, n - 1, n - 2, n / 2, n / 2 - 1];
    let mut p = 1;
    while p < n {
        v.push(p);
        v.push(p - 1);
        p *= 2;
    }
    while v.len() < sample {
        v.push(rng.random_range(0..n));
    }
    v.sort_unstable();
    v.dedup();
    v
}

pub fn run(ctx: &mut Ctx) -> Result<(), String> {
    let mut rng = ctx.rng("trees");
    let mut counts: Vec<usize> = if ctx.quick() {
        let mut v: Vec<usize> = (1..=64).collect();
        for k in 7..=10 {
            v.extend([(1usize << k) - 1, 1 << k, (1 << k) + 1]);
        }
        v
    } else {
        let mut v: Vec<usize> = (1..=1025).collect();
        v.extend([2047, 2048, 2049, 4097]);
        v
    };
    if ctx.scale < 1.0 {
        let keep = ((counts.len() as f64) * ctx.scale).ceil() as usize;
        counts.shuffle(&mut ctx.rng_global("scale"));
        counts.truncate(keep.max(4));
    }
    let (all_up_to, sample) = if ctx.quick() { (64, 20) } else { (128, 48) };
    for (ci, &n) in counts.iter().enumerate() {
        if !ctx.mine(ci as u64) {
            continue;
        }
        let tree_id = (ctx.seed << 16) ^ n as u64;
        // --- plain tree over byte leaves
        let raw: Vec<Vec<u8>> = (0..n).map(|i| unique_leaf(&mut rng, i, tree_id)).collect();
        let rt = RefTree::new(&raw);
        let tree = PlainMerkleTree::new(&raw);
        let wrong = unique_leaf(&mut rng, n + 7, tree_id ^ 0xffff);
        let idx = pick_indices(&mut rng, n, all_up_to, sample);
        let case = Case { ty: "plain", n, leaves: &raw, raw: &raw, tree: &tree, rt: &rt, wrong_leaf: &wrong };
        check_tree(ctx, &mut rng, &case, &idx, n <= 16);
        if ctx.sample_cap() && n > 2 {
            ctx.sample(json!({"tree": "plain", "leaves": n, "indices_checked": idx.len(), "height": rt.height(), "root": hex(&rt.root())}));
        }
        // --- slice tree over shred payloads (its own root and proof types; what shred validation uses)
        if n <= 130 {
            let tree_s = alpenglow::crypto::merkle::SliceMerkleTree::new(&raw);
            let case_s: Case<Vec<u8>, SliceRoot, alpenglow::crypto::merkle::SliceProof> = Case { ty: "slice", n, leaves: &raw, raw: &raw, tree: &tree_s, rt: &rt, wrong_leaf: &wrong };
            let idx_s = if n <= all_up_to { idx.clone() } else { pick_indices(&mut rng, n, all_up_to, sample / 2) };
            check_tree(ctx, &mut rng, &case_s, &idx_s, n <= 16);
        }
        // --- double-Merkle tree over slice roots (what repair uses)
        let roots: Vec<SliceRoot> = raw.iter().map(|d| SliceRoot::from(alpenglow::crypto::hash(d))).collect();
        let raw2: Vec<Vec<u8>> = roots.iter().map(|r| r.as_ref().to_vec()).collect();
        let rt2 = RefTree::new(&raw2);
        let tree2 = DoubleMerkleTree::new(&roots);
        let wrong2 = SliceRoot::from(alpenglow::crypto::hash(&wrong));
        let case2: Case<SliceRoot, DoubleMerkleRoot, DoubleMerkleProof> = Case { ty: "double", n, leaves: &roots, raw: &raw2, tree: &tree2, rt: &rt2, wrong_leaf: &wrong2 };
        let idx2 = if n <= all_up_to { idx.clone() } else { pick_indices(&mut rng, n, all_up_to, sample / 2) };
        check_tree(ctx, &mut rng, &case2, &idx2, false);

        // --- plain tree with explicit trailing empty leaves (statement: last = no non-empty leaf to the right)
        if n >= 2 && n <= 130 {
            let k = rng.random_range(1..n);
            let mut raw3 = raw.clone();
            for l in raw3.iter_mut().skip(k) {
                l.clear();
            }
            let rt3 = RefTree::new(&raw3);
            let tree3 = PlainMerkleTree::new(&raw3);
            let case3 = Case { ty: "plain-trailing-empty", n, leaves: &raw3, raw: &raw3, tree: &tree3, rt: &rt3, wrong_leaf: &wrong };
            let root3 = rt3.root();
            for i in [k - 1, k.saturating_sub(2), 0] {
                if i >= k {
                    continue;
                }
                let rp = rt3.proof(i);
                let want = rt3.is_last(i);
                expect(ctx, &case3, if want { "trailing-empty-last" } else { "trailing-empty-not-last" }, true, &raw3[i], i, &root3, &rp, want, i);
            }
        }
    }

    // --- trees that are not packed to the left: empty leaves in the middle, non-empty ones further right
    // (what a Byzantine leader's tree over [r0, <empty>, r2, ...] looks like); every index, both variants
    let gap_trees = ctx.iters(160, 6000);
    for g in 0..gap_trees {
        let n = match g % 4 {
            0 => 3,
            1 => rng.random_range(3..=9),
            2 => rng.random_range(9..=33),
            _ => *[4usize, 5, 8, 16, 17, 32, 64, 65].choose(&mut rng).unwrap(),
        };
        let mut raw4: Vec<Vec<u8>> = (0..n).map(|i| unique_leaf(&mut rng, i, 97)).collect();
        let holes = rng.random_range(1..n.max(2));
        for _ in 0..holes {
            let h = rng.random_range(0..n);
            raw4[h].clear();
        }
        if n == 3 && g % 8 == 0 {
            raw4 = vec![unique_leaf(&mut rng, 0, 97), vec![], unique_leaf(&mut rng, 2, 97)];
        }
        let rt4 = RefTree::new(&raw4);
        let tree4 = PlainMerkleTree::new(&raw4);
        let wrong = unique_leaf(&mut rng, n + 9, 96);
        let case4 = Case { ty: "plain-gaps", n, leaves: &raw4, raw: &raw4, tree: &tree4, rt: &rt4, wrong_leaf: &wrong };
        let root4 = rt4.root();
        for i in 0..n {
            let rp = rt4.proof(i);
            let want = rt4.is_last(i);
            expect(ctx, &case4, if want { "gaps-last" } else { "gaps-not-last" }, true, &raw4[i], i, &root4, &rp, want, i);
            expect(ctx, &case4, "gaps-membership", false, &raw4[i], i, &root4, &rp, true, i);
        }
    }

    // thorough: sweep all claimed indices 0..2^20 for sampled (tree, index) pairs
    if !ctx.quick() {
        let pairs = ctx.iters(0, 48);
        for _ in 0..pairs {
            let n = *[1usize, 2, 3, 5, 8, 13, 64, 100, 1000, 1024].choose(&mut rng).unwrap();
            let raw: Vec<Vec<u8>> = (0..n).map(|i| unique_leaf(&mut rng, i, 99)).collect();
            let rt = RefTree::new(&raw);
            let tree = PlainMerkleTree::new(&raw);
            let wrong = unique_leaf(&mut rng, n + 7, 98);
            let case = Case { ty: "plain-sweep", n, leaves: &raw, raw: &raw, tree: &tree, rt: &rt, wrong_leaf: &wrong };
            let i = rng.random_range(0..n);
            let rp = rt.proof(i);
            let root = rt.root();
            let last_variant = rng.random_bool(0.5);
            let mut bad = 0u64;
            let r = to_hash(&root);
            let p: Vec<Hash> = to_proof(&rp);
            for ci in 0..(1usize << 20) {
                if ci == i {
                    continue;
                }
                let g = if last_variant { PlainMerkleTree::check_proof_last(&raw[i], ci, &r, &p) } else { PlainMerkleTree::check_proof(&raw[i], ci, &r, &p) };
                if g {
                    bad += 1;
                    if bad == 1 {
                        expect(ctx, &case, "index-sweep-0..2^20[beyond-or-in-width]", last_variant, &raw[i], ci, &root, &rp, false, i);
                    }
                }
            }
            ctx.evaluations += (1 << 20) - 1;
            ctx.count_n("sweep:claimed-indices", (1 << 20) - 1);
            ctx.count_n("sweep:accepted-wrong-index", bad);
            ctx.distinct(format!("sweep:{n}:{i}:{last_variant}"));
        }
    }
    Ok(())
}
