//! C16 All nodes agree on shred routing, so fault-free dissemination reaches everyone.

use std::collections::BTreeMap;
use std::sync::{Arc, Mutex};

use alpenglow::Disseminator;
use alpenglow::disseminator::{Rotor, Turbine};
use alpenglow::shredder::Shred;
use futures::FutureExt;
use rand::prelude::*;
use serde_json::json;

use crate::common::{Ep, Epoch, FAMILIES, SRng, gen_stakes, make_epoch_cheap};
use crate::evidence::{Ctx, guarded};
use crate::net::{Datagram, NetHandle, VerifNet};
use crate::wire::ShredParts;

type SNet = VerifNet<Shred, Shred>;

fn mk_shred(slot: u64, slice: u64, idx: u64) -> Shred {
    ShredParts { tag: if idx < 32 { 0 } else { 1 }, slot, slice_index: slice, is_last: 0, shred_index: idx, data: vec![slot as u8, slice as u8, idx as u8, 0], sig: [7u8; 64], proof: vec![] }
        .decode()
        .expect("synthetic shred decodes")
}

#[derive(Clone, Copy, Debug, PartialEq, Eq)]
enum Proto {
    Rotor,
    RotorFa1,
    Turbine(usize),
}

impl Proto {
    fn name(&self) -> String {
        match self {
            Proto::Rotor => "rotor".into(),
            Proto::RotorFa1 => "rotor-fa1".into(),
            Proto::Turbine(f) => format!("turbine(f={f})"),
        }
    }
    fn class(&self) -> &'static str {
        match self {
            Proto::Rotor => "rotor",
            Proto::RotorFa1 => "rotor-fa1",
            Proto::Turbine(_) => "turbine",
        }
    }
}

enum Inst {
    R(Rotor<SNet, alpenglow::disseminator::rotor::IidQuorumSampler<alpenglow::disseminator::rotor::StakeWeightedSampler>>),
    F(Rotor<SNet, alpenglow::disseminator::rotor::FaitAccompli1Sampler<alpenglow::disseminator::rotor::sampling_strategy::PartitionSampler>>),
    T(Turbine<SNet>),
}

impl Inst {
    async fn send(&self, s: &Shred) {
        let _ = match self {
            Inst::R(x) => x.send(s).await,
            Inst::F(x) => x.send(s).await,
            Inst::T(x) => x.send(s).await,
        };
    }
    async fn forward(&self, s: &Shred) {
        let _ = match self {
            Inst::R(x) => x.forward(s).await,
            Inst::F(x) => x.forward(s).await,
            Inst::T(x) => x.forward(s).await,
        };
    }
    fn try_receive(&self) -> Option<Shred> {
        match self {
            Inst::R(x) => x.receive().now_or_never().and_then(|r| r.ok()),
            Inst::F(x) => x.receive().now_or_never().and_then(|r| r.ok()),
            Inst::T(x) => x.receive().now_or_never().and_then(|r| r.ok()),
        }
    }
}

fn build(proto: Proto, net: &NetHandle, ep: &Epoch, v: usize) -> Inst {
    let e: SNet = net.endpoint(Ep::Diss, v);
    match proto {
        Proto::Rotor => Inst::R(Rotor::new(e, ep.own(v))),
        Proto::RotorFa1 => Inst::F(Rotor::new_fa1(e, ep.own(v))),
        Proto::Turbine(f) => Inst::T(Turbine::new(e, ep.own(v)).with_fanout(f)),
    }
}

fn leader_of(ep: &Epoch, slot: u64) -> usize {
    ((slot / 4) % ep.n() as u64) as usize
}

async fn one_config(ctx: &mut Ctx, rng: &mut SRng, ep: &Epoch, proto: Proto, triples: usize) {
    let n = ep.n();
    let key = format!("{}:{}:{}", proto.class(), ep.family, n);
    let wit = |extra: serde_json::Value| json!({"protocol": proto.name(), "n": n, "family": ep.family, "stakes": if n <= 32 { json!(ep.stakes) } else { json!(null) }, "extra": extra});
    // recorder shared with the network
    let log: Arc<Mutex<Vec<Datagram>>> = Arc::new(Mutex::new(Vec::new()));
    let mk_net = || {
        let net = NetHandle::new();
        let l = log.clone();
        net.0.lock().unwrap().on_send = Some(Box::new(move |d| l.lock().unwrap().push(d.clone())));
        net
    };
    // primary network: one instance per validator; second network: independently constructed
    // duplicates (built later, queried in a different order)
    let net_a = mk_net();
    let built = guarded(|| (0..n).map(|v| build(proto, &net_a, ep, v)).collect::<Vec<_>>());
    ctx.eval();
    let insts = match built {
        Ok(i) => i,
        Err(p) => {
            ctx.violation(
                format!("C16 {} construct {}", proto.class(), p.sig()),
                format!("{} at {}:{} (n {}, family {})", p.msg, p.file, p.line, n, ep.family),
                wit(json!("construction")),
            );
            return;
        }
    };
    ctx.distinct(key.clone());
    ctx.count(&format!("configs:{}", proto.class()));
    let net_b = mk_net();
    let dups: Vec<(usize, Inst)> = {
        let mut vs: Vec<usize> = (0..n).collect();
        vs.shuffle(rng);
        vs.truncate(n.min(4));
        match guarded(|| vs.iter().map(|v| (*v, build(proto, &net_b, ep, *v))).collect::<Vec<_>>()) {
            Ok(d) => d,
            Err(p) => {
                ctx.violation(format!("C16 {} construct {} (second instance only)", proto.class(), p.sig()), p.msg, wit(json!("dup construction")));
                return;
            }
        }
    };

    // --- agreement: who does the leader send to, and who forwards where
    let mut routes: BTreeMap<(u64, u64, u64), Vec<(usize, usize)>> = BTreeMap::new();
    let mut shreds = Vec::new();
    for _ in 0..triples {
        let slot = match rng.random_range(0..4) {
            0 => rng.random_range(0..64),
            1 => rng.random_range(0..100_000),
            2 => u64::MAX - rng.random_range(0..8u64),
            _ => rng.random_range(0..4 * n as u64 + 8),
        };
        let slice = *[0u64, 1, 2, 7, 1023, rng.random_range(0..1024)].choose(rng).unwrap();
        let idx = rng.random_range(0..64u64);
        shreds.push((slot, slice, idx));
        // the same slot and in-slice shred index in another slice (and the same position within the slot
        // reached through another slice/index pair): keys an over-coarse cache would confuse
        if rng.random_bool(0.4) {
            let other = (slice + rng.random_range(1..1024)) % 1024;
            shreds.push((slot, other, idx));
        }
    }
    let triples = shreds.len();
    // what every primary instance did per triple, for the duplicates that see the triples in another order
    let mut primary_fw: BTreeMap<(u64, u64, u64), Vec<(usize, Vec<usize>)>> = BTreeMap::new();
    for &(slot, slice, idx) in &shreds {
        let s = mk_shred(slot, slice, idx);
        let leader = leader_of(ep, slot);
        ctx.eval();
        log.lock().unwrap().clear();
        let r = crate::evidence::guarded_async(async {
            insts[leader].send(&s).await;
            let sent_by_leader: Vec<Datagram> = std::mem::take(&mut *log.lock().unwrap());
            // every instance is asked to forward (as if it had received the shred)
            let mut order: Vec<usize> = (0..n).collect();
            order.shuffle(rng);
            let mut fw: Vec<(usize, Vec<usize>)> = Vec::new();
            for v in order {
                insts[v].forward(&s).await;
                let out: Vec<usize> = std::mem::take(&mut *log.lock().unwrap()).iter().map(|d| d.to.1).collect();
                fw.push((v, out));
            }
            (sent_by_leader, fw)
        })
        .await;
        let (sent_by_leader, fw) = match r {
            Ok(x) => x,
            Err(p) => {
                ctx.violation(format!("C16 {} routing {}", proto.class(), p.sig()), p.msg, wit(json!({"slot": slot, "slice": slice, "shred": idx})));
                return;
            }
        };
        ctx.count(&format!("triples:{}", proto.class()));
        let w = |e: serde_json::Value| wit(json!({"slot": slot, "slice": slice, "shred": idx, "leader": leader, "detail": e}));
        if sent_by_leader.len() != 1 {
            ctx.violation(format!("C16 {} leader sends a shred to {} destinations instead of one", proto.class(), sent_by_leader.len().min(2)), "", w(json!(sent_by_leader.len())));
            continue;
        }
        let first_hop = sent_by_leader[0].to.1;
        primary_fw.insert((slot, slice, idx), fw.clone());
        match proto {
            Proto::Rotor | Proto::RotorFa1 => {
                let forwarders: Vec<usize> = fw.iter().filter(|(_, o)| !o.is_empty()).map(|(v, _)| *v).collect();
                let expect_targets: Vec<usize> = (0..n).filter(|i| *i != first_hop && *i != leader).collect();
                if expect_targets.is_empty() {
                    if !forwarders.is_empty() {
                        ctx.violation(format!("C16 {} relay broadcasts although nobody is left to reach", proto.class()), "", w(json!(forwarders)));
                    }
                } else if forwarders != vec![first_hop] {
                    ctx.violation(
                        format!("C16 {} nodes disagree on the relay of a shred", proto.class()),
                        format!("leader sent to {first_hop}, nodes that consider themselves relay: {forwarders:?}"),
                        w(json!({"leader_sent_to": first_hop, "self_declared_relays": forwarders})),
                    );
                } else {
                    let mut got = fw.iter().find(|(v, _)| *v == first_hop).unwrap().1.clone();
                    got.sort_unstable();
                    if got != expect_targets {
                        ctx.violation(format!("C16 {} relay does not broadcast to exactly everyone except leader and itself", proto.class()), format!("{got:?}"), w(json!({"got": got, "want": expect_targets})));
                    }
                }
                routes.entry((slot, slice, idx)).or_default().push((leader, first_hop));
            }
            Proto::Turbine(_) => {
                // tree consistency: every validator except the root appears as a child exactly once
                let mut child_count = vec![0usize; n];
                for (_, out) in &fw {
                    for c in out {
                        child_count[*c] += 1;
                    }
                }
                for (v, c) in child_count.iter().enumerate() {
                    let want = if v == first_hop { 0 } else { 1 };
                    if *c != want {
                        ctx.violation(
                            "C16 turbine tree positions are inconsistent across nodes".to_string(),
                            format!("validator {v} is a child of {c} nodes (root {first_hop})"),
                            w(json!({"child_counts": child_count, "root": first_hop})),
                        );
                        break;
                    }
                }
                routes.entry((slot, slice, idx)).or_default().push((leader, first_hop));
            }
        }
    }

    // --- independently constructed duplicates, fed the same shreds in a different order, must act identically
    // (routing is a function of the shred and the epoch, not of what an instance happened to see before)
    {
        let mut order: Vec<(u64, u64, u64)> = shreds.clone();
        order.reverse();
        if rng.random_bool(0.5) {
            order.shuffle(rng);
        }
        for (slot, slice, idx) in order {
            let s = mk_shred(slot, slice, idx);
            let Some(fw) = primary_fw.get(&(slot, slice, idx)) else { continue };
            for (v, d) in &dups {
                log.lock().unwrap().clear();
                if let Err(p) = crate::evidence::guarded_async(d.forward(&s)).await {
                    ctx.violation(format!("C16 {} routing {}", proto.class(), p.sig()), p.msg, wit(json!({"slot": slot, "slice": slice, "shred": idx})));
                    return;
                }
                let mut b: Vec<usize> = std::mem::take(&mut *log.lock().unwrap()).iter().map(|d| d.to.1).collect();
                let mut a = fw.iter().find(|(x, _)| x == v).map(|(_, o)| o.clone()).unwrap_or_default();
                a.sort_unstable();
                b.sort_unstable();
                ctx.eval();
                if a != b {
                    ctx.violation(
                        format!("C16 {} two independently constructed instances of the same node route differently", proto.class()),
                        format!("validator {v}: {a:?} vs {b:?} (second instance saw the shreds in another order)"),
                        wit(json!({"slot": slot, "slice": slice, "shred": idx, "validator": v, "first": a, "second": b})),
                    );
                }
            }
        }
    }

    // --- pure memoisation: after more distinct keys than the cache holds, answers are unchanged
    if n <= 8 && rng.random_bool(if ctx.quick() { 0.1 } else { 0.3 }) {
        let probe = &insts[leader_of(ep, 8)];
        let flood = if matches!(proto, Proto::Turbine(_)) { 66_000 } else { 17_000 };
        for i in 0..flood as u64 {
            let s = mk_shred(1_000_000 + i / 64, (i % 1024) as u64, i % 64);
            probe.forward(&s).await;
        }
        log.lock().unwrap().clear();
        ctx.count("cache-eviction-floods");
        ctx.distinct(format!("evict:{key}"));
        for &(slot, slice, idx) in shreds.iter().take(40) {
            if leader_of(ep, slot) != leader_of(ep, 8) {
                continue;
            }
            let s = mk_shred(slot, slice, idx);
            probe.send(&s).await;
            let out: Vec<usize> = std::mem::take(&mut *log.lock().unwrap()).iter().map(|d| d.to.1).collect();
            ctx.eval();
            let before = routes.get(&(slot, slice, idx)).and_then(|r| r.first()).map(|r| r.1);
            if out.len() != 1 || Some(out[0]) != before {
                ctx.violation(format!("C16 {} routing answer changed after cache eviction", proto.class()), format!("{before:?} -> {out:?}"), wit(json!({"slot": slot, "slice": slice, "shred": idx})));
            }
        }
    }

    // --- delivery: run all instances' receive -> forward loops over the loss-free network
    let deliveries = triples.min(if ctx.quick() { 24 } else { 64 });
    for &(slot, slice, idx) in shreds.iter().take(deliveries) {
        let s = mk_shred(slot, slice, idx);
        let leader = leader_of(ep, slot);
        // drain inboxes
        for i in &insts {
            while i.try_receive().is_some() {}
        }
        log.lock().unwrap().clear();
        let mut received = vec![0usize; n];
        let mut broadcasts = 0usize;
        let r = crate::evidence::guarded_async(async {
            insts[leader].send(&s).await;
            let mut progress = true;
            let mut rounds = 0;
            while progress && rounds < 10 * n + 10 {
                progress = false;
                rounds += 1;
                for v in 0..n {
                    while let Some(got) = insts[v].try_receive() {
                        progress = true;
                        received[v] += 1;
                        let before = log.lock().unwrap().len();
                        insts[v].forward(&got).await;
                        let after = log.lock().unwrap().len();
                        if after - before > 0 {
                            broadcasts += 1;
                        }
                    }
                }
            }
        })
        .await;
        ctx.eval();
        if let Err(p) = r {
            ctx.violation(format!("C16 {} delivery {}", proto.class(), p.sig()), p.msg, wit(json!({"slot": slot})));
            return;
        }
        ctx.count(&format!("deliveries:{}", proto.class()));
        let w = |e: serde_json::Value| wit(json!({"slot": slot, "slice": slice, "shred": idx, "leader": leader, "received_counts": received, "detail": e}));
        for v in 0..n {
            if v == leader {
                continue;
            }
            if received[v] != 1 {
                ctx.violation(
                    format!("C16 {} fault-free dissemination: a validator received a shred {} times", proto.class(), if received[v] == 0 { "0" } else { ">1" }),
                    format!("validator {v} received {} copies", received[v]),
                    w(json!(v)),
                );
                break;
            }
        }
        if received[leader] > 1 {
            ctx.violation(format!("C16 {} leader received its own shred more than once", proto.class()), "", w(json!(null)));
        }
        if !matches!(proto, Proto::Turbine(_)) && n > 2 && broadcasts != 1 {
            ctx.violation(format!("C16 {} shred went through {} relay broadcasts instead of one", proto.class(), broadcasts.min(2)), "", w(json!(broadcasts)));
        }
    }
    if ctx.sample_cap() && n > 2 {
        let ex: Vec<_> = routes.iter().take(3).map(|(k, v)| json!({"slot": k.0, "slice": k.1, "shred": k.2, "leader": v[0].0, "first_hop": v[0].1})).collect();
        ctx.sample(wit(json!({"triples": triples, "routes": ex})));
    }
}

/// `Rotor::with_sampler` reconfigures an instance that may already have routed shreds: afterwards it must route
/// exactly like a fresh instance given that sampler at once (the relay cache is a memoisation of the
/// *current* sampler, nothing else).
async fn reconfigured_instance(ctx: &mut Ctx, rng: &mut SRng, ep: &Epoch) {
    use alpenglow::disseminator::rotor::{SamplingStrategy, StakeWeightedSampler};
    let n = ep.n();
    if n < 3 {
        return;
    }
    let log: Arc<Mutex<Vec<Datagram>>> = Arc::new(Mutex::new(Vec::new()));
    let mk_net = || {
        let net = NetHandle::new();
        let l = log.clone();
        net.0.lock().unwrap().on_send = Some(Box::new(move |d| l.lock().unwrap().push(d.clone())));
        net
    };
    // the second sampler weighs the validators differently (stakes rotated by one position)
    let mut vs2 = ep.validators().to_vec();
    let stakes: Vec<_> = vs2.iter().map(|v| v.stake).collect();
    for (i, v) in vs2.iter_mut().enumerate() {
        v.stake = stakes[(i + 1) % n];
    }
    let mk2 = || StakeWeightedSampler::new(vs2.clone()).into_quorum_strategy(alpenglow::shredder::TOTAL_SHREDS);
    let (na, nb) = (mk_net(), mk_net());
    let leader_slot = 4 * rng.random_range(1..40u64);
    let leader = leader_of(ep, leader_slot);
    let slice = rng.random_range(0..8u64);
    let r = crate::evidence::guarded_async(async {
        let used: Rotor<SNet, _> = Rotor::new(na.endpoint(Ep::Diss, leader), ep.own(leader));
        // route a few shreds of the slice (fills the cache under the first sampler)
        for idx in 0..4u64 {
            used.send(&mk_shred(leader_slot, slice, idx)).await.ok();
        }
        log.lock().unwrap().clear();
        let used = used.with_sampler(mk2());
        let fresh: Rotor<SNet, _> = Rotor::new(nb.endpoint(Ep::Diss, leader), ep.own(leader)).with_sampler(mk2());
        let mut diffs = Vec::new();
        for idx in 0..64u64 {
            let s = mk_shred(leader_slot, slice, idx);
            used.send(&s).await.ok();
            let a: Vec<usize> = std::mem::take(&mut *log.lock().unwrap()).iter().map(|d| d.to.1).collect();
            fresh.send(&s).await.ok();
            let b: Vec<usize> = std::mem::take(&mut *log.lock().unwrap()).iter().map(|d| d.to.1).collect();
            if a != b {
                diffs.push((idx, a, b));
            }
        }
        diffs
    })
    .await;
    ctx.eval();
    ctx.count("reconfigured-instances");
    match r {
        Err(p) => ctx.violation(format!("C16 rotor routing {} after with_sampler", p.sig()), p.msg, json!({"n": n, "family": ep.family})),
        Ok(diffs) => {
            if let Some((idx, a, b)) = diffs.first() {
                ctx.violation(
                    "C16 rotor instance reconfigured with with_sampler routes differently from a fresh instance with that sampler".to_string(),
                    format!("slot {leader_slot} slice {slice} shred {idx}: {a:?} vs {b:?} ({} of 64 shreds differ)", diffs.len()),
                    json!({"n": n, "family": ep.family, "stakes": if n <= 32 { json!(ep.stakes) } else { json!(null) }}),
                );
            }
        }
    }
}

pub fn run(ctx: &mut Ctx) -> Result<(), String> {
    let rt = tokio::runtime::Builder::new_current_thread().enable_all().start_paused(true).build().map_err(|e| e.to_string())?;
    let mut rng = ctx.rng("cfg");
    let iters = ctx.iters(480, 12_000);
    let max_n = if ctx.quick() { 64 } else { 400 };
    // directed: small equal-stake sets with the FA1 constructor (what create_test_nodes-like setups use)
    if ctx.shard == 0 {
        for n in [4usize, 11, 50] {
            let ep = make_epoch_cheap(&mut rng, &vec![1; n], "equal");
            rt.block_on(tokio::task::unconstrained(one_config(ctx, &mut rng, &ep, Proto::RotorFa1, 16)));
        }
    }
    for _ in 0..iters {
        let n = match rng.random_range(0..10) {
            0 => 1,
            1 => 2,
            2 => 3,
            3..=6 => rng.random_range(4..=16),
            7 | 8 => rng.random_range(17..=64),
            _ => rng.random_range(17..=max_n),
        };
        let family = *FAMILIES.choose(&mut rng).unwrap();
        let stakes = gen_stakes(&mut rng, family, n);
        let ep = make_epoch_cheap(&mut rng, &stakes, family);
        let proto = match rng.random_range(0..4) {
            0 => Proto::Rotor,
            1 => Proto::RotorFa1,
            _ => Proto::Turbine(match rng.random_range(0..4) {
                0 => 1,
                1 => n + 1,
                2 => 200,
                _ => rng.random_range(1..=n + 1),
            }),
        };
        let triples = if n > 100 { 12 } else if ctx.quick() { 40 } else { 120 };
        rt.block_on(tokio::task::unconstrained(one_config(ctx, &mut rng, &ep, proto, triples)));
        if matches!(proto, Proto::Rotor) && n <= 64 {
            rt.block_on(tokio::task::unconstrained(reconfigured_instance(ctx, &mut rng, &ep)));
        }
    }
    drop(rt);
    // the forwarding decision itself is taken in the node's message loop: whole nodes, fault-free runs
    crate::props::cluster_props::run_c16_nodes(ctx, 16, 400);
    Ok(())
}
