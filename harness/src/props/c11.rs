//! C11 Erasure coding: any 32 of a slice's 64 shreds restore it bit-for-bit.

use alpenglow::crypto::signature::{PublicKey, SecretKey};
use alpenglow::shredder::{
    AontShredder, CodingOnlyShredder, DeshredError, PetsShredder, RegularShredder, ShredError, Shredder, TOTAL_SHREDS, ValidatedShred,
};
use alpenglow::types::{Slice, Slot};
use rand::prelude::*;
use serde_json::json;

use crate::common::{SRng, bh, mk_rng};
use crate::evidence::{Ctx, guarded};
use crate::wire::{ser, slice_index};

const SUBSET_SHAPES: &[&str] = &[
    "first32", "last32", "data-then-fill", "coding-then-fill", "alternating-even", "alternating-odd", "random32", "random33", "random48", "random63", "all64", "random31", "none", "random1-30",
];

fn subset(rng: &mut SRng, shape: &str) -> Vec<usize> {
    let mut all: Vec<usize> = (0..TOTAL_SHREDS).collect();
    match shape {
        "first32" => (0..32).collect(),
        "last32" => (32..64).collect(),
        "data-then-fill" => (0..32).collect(),
        "coding-then-fill" => (32..64).collect(),
        "alternating-even" => (0..64).step_by(2).collect(),
        "alternating-odd" => (1..64).step_by(2).collect(),
        "all64" => all,
        "none" => vec![],
        _ => {
            let k = match shape {
                "random32" => 32,
                "random33" => 33,
                "random48" => 48,
                "random63" => 63,
                "random31" => 31,
                "random1-30" => rng.random_range(1..=30),
                _ => unreachable!(),
            };
            all.shuffle(rng);
            all.truncate(k);
            all.sort_unstable();
            all
        }
    }
}

fn mk_slice(rng: &mut SRng, payload_len: usize, with_parent: bool, slot: u64, idx: usize, last: bool) -> Option<Slice> {
    let overhead = if with_parent { 1 + 8 + 32 + 8 } else { 1 + 8 };
    let dl = payload_len.checked_sub(overhead)?;
    let mut data = vec![0u8; dl];
    // mix of random, zero-tail (padding look-alike) and 0x80-tail payloads
    match rng.random_range(0..4) {
        0 => {}
        1 => {
            rng.fill_bytes(&mut data);
            let z = rng.random_range(0..=dl.min(70));
            for b in data.iter_mut().rev().take(z) {
                *b = 0;
            }
        }
        2 => {
            rng.fill_bytes(&mut data);
            if dl > 0 {
                data[dl - 1] = 0x80;
            }
        }
        _ => rng.fill_bytes(&mut data),
    }
    Some(Slice { slot: Slot::new(slot), slice_index: slice_index(idx), is_last: last, parent: if with_parent { Some((Slot::new(slot.saturating_sub(1)), bh(payload_len as u64))) } else { None }, data })
}

fn arr_bytes(a: &[Option<ValidatedShred>; TOTAL_SHREDS]) -> Vec<Option<Vec<u8>>> {
    a.iter().map(|s| s.as_ref().map(|s| ser(s.as_shred()))).collect()
}

struct Lane<S: Shredder> {
    name: &'static str,
    sh: S,
    /// the previous case's slice and shreds: a shredder instance is reused across slices of different sizes,
    /// in both directions, and must not carry configuration from one call into the next
    prev: Option<(Slice, Vec<ValidatedShred>)>,
}

fn one_case<S: Shredder>(ctx: &mut Ctx, rng: &mut SRng, lane: &mut Lane<S>, sk: &SecretKey, pk: &PublicKey, payload_len: usize, with_parent: bool, shapes: &[&str], verify_all: bool) {
    let name = lane.name;
    let slot = rng.random_range(1..1000u64);
    let idx = rng.random_range(0..1024usize);
    let last = rng.random_bool(0.5);
    let Some(slice) = mk_slice(rng, payload_len, with_parent, slot, idx, last) else { return };
    let wit = |extra: serde_json::Value| json!({"shredder": name, "payload_len": payload_len, "with_parent": with_parent, "slot": slot, "slice_index": idx, "is_last": last, "extra": extra});
    let shredded = guarded(|| lane.sh.shred(&slice, sk));
    ctx.eval();
    let over = payload_len > S::MAX_DATA_SIZE;
    let shreds = match shredded {
        Err(p) => {
            ctx.violation(format!("C11 {name} shred {}", p.sig()), p.msg, wit(json!(null)));
            return;
        }
        Ok(Err(ShredError::TooMuchData)) => {
            ctx.count("shred:too-much-data");
            ctx.distinct(format!("{name}:oversize:{}", payload_len - S::MAX_DATA_SIZE.min(payload_len)));
            if !over {
                ctx.violation(format!("C11 {name} refused a slice within the size limit"), format!("payload {payload_len} <= max {}", S::MAX_DATA_SIZE), wit(json!(null)));
            }
            return;
        }
        Ok(Ok(s)) => s,
    };
    if over {
        ctx.violation(format!("C11 {name} shredded a slice above the size limit"), format!("payload {payload_len} > max {}", S::MAX_DATA_SIZE), wit(json!(null)));
        return;
    }
    // stale state: right after shredding this slice, rebuild the previous (differently sized) one from 32 shreds
    if let Some((pslice, pshreds)) = lane.prev.take() {
        let shape = if rng.random_bool(0.5) { "random32" } else { "first32" };
        let sub = subset(rng, shape);
        let mut arr: [Option<ValidatedShred>; TOTAL_SHREDS] = [const { None }; TOTAL_SHREDS];
        for &i in &sub {
            arr[i] = Some(pshreds[i].clone());
        }
        let res = guarded(|| lane.sh.deshred(&mut arr));
        ctx.eval();
        ctx.count("deshred:previous-slice-after-shredding-another-size");
        match res {
            Err(p) => ctx.violation(format!("C11 {name} deshred {} on an instance reused across slice sizes", p.sig()), p.msg, wit(json!({"previous_payload_len": pslice.data.len()}))),
            Ok(Err(e)) => ctx.violation(format!("C11 {name} deshred failed with {e:?} on an instance reused across slice sizes"), "", wit(json!({"previous_payload_len": pslice.data.len()}))),
            Ok(Ok(rs)) => {
                if rs.data != pslice.data || rs.parent != pslice.parent {
                    ctx.violation(format!("C11 {name} reconstructed slice differs from the original on an instance reused across slice sizes"), "", wit(json!({"previous_payload_len": pslice.data.len()})));
                }
            }
        }
    }
    lane.prev = Some((slice.clone(), shreds.to_vec()));
    let orig: Vec<Vec<u8>> = shreds.iter().map(|s| ser(s.as_shred())).collect();
    let shard = crate::wire::ShredParts::parse(&orig[0]).map(|p| p.data.len()).unwrap_or(0);
    for &shape in shapes {
        let sub = subset(rng, shape);
        let mut arr: [Option<ValidatedShred>; TOTAL_SHREDS] = [const { None }; TOTAL_SHREDS];
        for &i in &sub {
            arr[i] = Some(shreds[i].clone());
        }
        let before = arr_bytes(&arr);
        let res = guarded(|| lane.sh.deshred(&mut arr));
        ctx.eval();
        ctx.distinct(format!("{name}:m{}:s{}:{shape}", payload_len % 64, shard));
        ctx.count(&format!("deshred:{shape}"));
        let w = || wit(json!({"subset_shape": shape, "subset": sub}));
        match res {
            Err(p) => {
                ctx.violation(format!("C11 {name} deshred {} shape={shape}", p.sig()), p.msg, w());
            }
            Ok(Err(e)) => {
                if arr_bytes(&arr) != before {
                    ctx.violation(format!("C11 {name} deshred error {e:?} modified the supplied shreds"), format!("{shape}"), w());
                }
                if sub.len() >= 32 {
                    ctx.violation(format!("C11 {name} deshred failed with {e:?} given >=32 genuine shreds shape={shape}"), format!("{} shreds", sub.len()), w());
                } else if e != DeshredError::NotEnoughShreds {
                    ctx.violation(format!("C11 {name} deshred returned {e:?} instead of NotEnoughShreds"), format!("{} shreds", sub.len()), w());
                }
            }
            Ok(Ok(rs)) => {
                if sub.len() < 32 {
                    ctx.violation(format!("C11 {name} reconstructed from fewer than 32 shreds"), format!("{} shreds", sub.len()), w());
                    continue;
                }
                let same = rs.slot == slice.slot && rs.slice_index == slice.slice_index && rs.is_last == slice.is_last && rs.parent == slice.parent && rs.data == slice.data;
                if !same {
                    ctx.violation(
                        format!("C11 {name} reconstructed slice differs from the original shape={shape}"),
                        format!("data equal: {}, parent equal: {}, header equal: {}", rs.data == slice.data, rs.parent == slice.parent, rs.slot == slice.slot && rs.slice_index == slice.slice_index && rs.is_last == slice.is_last),
                        w(),
                    );
                    continue;
                }
                if rs.slice_root() != shreds[0].slice_root() {
                    ctx.violation(format!("C11 {name} reconstructed slice root differs"), "", w());
                }
                let after = arr_bytes(&arr);
                let mut regenerated = Vec::new();
                for i in 0..TOTAL_SHREDS {
                    match &after[i] {
                        None => {
                            ctx.violation(format!("C11 {name} deshred left a missing shred unfilled"), format!("position {i}"), w());
                            break;
                        }
                        Some(b) if *b != orig[i] => {
                            ctx.violation(
                                format!("C11 {name} regenerated shred differs from the leader's shred"),
                                format!("position {i} (was {} in the input)", if before[i].is_some() { "present" } else { "missing" }),
                                w(),
                            );
                            break;
                        }
                        Some(_) => {
                            if before[i].is_none() {
                                regenerated.push(i);
                            }
                        }
                    }
                }
                ctx.count_n("regenerated-shreds-compared", regenerated.len() as u64);
                // regenerated shreds must validate from scratch under the leader's key
                let to_verify: Vec<usize> = if verify_all { regenerated.clone() } else { regenerated.sample(rng, 2).copied().collect() };
                for i in to_verify {
                    let s = arr[i].as_ref().unwrap().as_shred().clone();
                    ctx.eval();
                    ctx.count("regenerated-shreds-validated");
                    if ValidatedShred::try_new(s, None, pk).is_err() {
                        ctx.violation(format!("C11 {name} regenerated shred fails validation under the leader key"), format!("position {i}"), w());
                        break;
                    }
                }
            }
        }
    }
    // error path with >= 32 shreds: mix two different validly signed slices with the same header
    if rng.random_bool(0.08) && payload_len <= S::MAX_DATA_SIZE {
        let mut other = slice.clone();
        if other.data.is_empty() {
            return;
        }
        let k = rng.random_range(0..other.data.len());
        other.data[k] ^= 0x5a;
        if let Ok(Ok(shreds_b)) = guarded(|| lane.sh.shred(&other, sk)) {
            let mut arr: [Option<ValidatedShred>; TOTAL_SHREDS] = [const { None }; TOTAL_SHREDS];
            let mut pos: Vec<usize> = (0..TOTAL_SHREDS).collect();
            pos.shuffle(rng);
            let take = rng.random_range(32..=64);
            for (j, &i) in pos.iter().take(take).enumerate() {
                arr[i] = Some(if j % 2 == 0 { shreds[i].clone() } else { shreds_b[i].clone() });
            }
            let before = arr_bytes(&arr);
            let res = guarded(|| lane.sh.deshred(&mut arr));
            ctx.eval();
            ctx.count("deshred:mixed-two-slices");
            ctx.distinct(format!("{name}:mixed:m{}", payload_len % 64));
            match res {
                Err(p) => ctx.violation(format!("C11 {name} deshred {} on mixed slices", p.sig()), p.msg, wit(json!("mixed"))),
                Ok(Err(_)) => {
                    if arr_bytes(&arr) != before {
                        ctx.violation(format!("C11 {name} deshred error modified the supplied shreds (mixed slices)"), "", wit(json!("mixed")));
                    }
                }
                Ok(Ok(rs)) => {
                    // accepting is only legitimate if the result equals one of the two signed slices
                    let ok = (rs.data == slice.data || rs.data == other.data) && rs.parent == slice.parent;
                    if !ok {
                        ctx.violation(format!("C11 {name} deshred produced a slice nobody signed from mixed shreds"), "", wit(json!("mixed")));
                    } else {
                        ctx.count("deshred:mixed-accepted-as-one-of-the-originals");
                    }
                }
            }
        }
    }
}

/// What a hostile leader can validly sign: a slice produced with one shredder and decoded with another.
/// Erasure code and Merkle tree are consistent, but the decoded bytes are (almost surely) no valid slice
/// payload, the key tail is missing, or the data/coding layout differs. Whatever the decoder answers, an
/// error must leave the supplied shreds untouched and nothing may panic.
fn cross_case<E: Shredder, D: Shredder>(ctx: &mut Ctx, rng: &mut SRng, en: &'static str, dn: &'static str, sk: &SecretKey, payload_len: usize) {
    let mut enc = E::default();
    let mut dec = D::default();
    let slot = rng.random_range(1..1000u64);
    let (wp, si, last) = (rng.random_bool(0.5), rng.random_range(0..1024usize), rng.random_bool(0.5));
    let Some(slice) = mk_slice(rng, payload_len, wp, slot, si, last) else { return };
    let Ok(Ok(shreds)) = guarded(|| enc.shred(&slice, sk)) else { return };
    for shape in ["random32", "random33", "random48", "random63", "first32", "last32", "all64", "alternating-even"] {
        let sub = subset(rng, shape);
        let mut arr: [Option<ValidatedShred>; TOTAL_SHREDS] = [const { None }; TOTAL_SHREDS];
        for &i in &sub {
            arr[i] = Some(shreds[i].clone());
        }
        let before = arr_bytes(&arr);
        let res = guarded(|| dec.deshred(&mut arr));
        ctx.eval();
        let wit = json!({"encoded_with": en, "decoded_with": dn, "payload_len": payload_len, "subset_shape": shape, "subset": sub});
        match res {
            Err(p) => ctx.violation(format!("C11 {dn} deshred {} on a slice shredded with {en}", p.sig()), p.msg, wit),
            Ok(Err(e)) => {
                ctx.count(&format!("cross:{en}->{dn}:{e:?}"));
                ctx.distinct(format!("cross:{en}->{dn}:{e:?}:{shape}"));
                if arr_bytes(&arr) != before {
                    ctx.violation(format!("C11 {dn} deshred error {e:?} modified the supplied shreds"), format!("slice shredded with {en}, {shape}"), wit);
                }
            }
            Ok(Ok(_)) => {
                ctx.count(&format!("cross:{en}->{dn}:decoded"));
                let after = arr_bytes(&arr);
                if (0..TOTAL_SHREDS).any(|i| before[i].is_some() && before[i] != after[i]) {
                    ctx.violation(format!("C11 {dn} deshred altered a supplied shred"), format!("slice shredded with {en}, {shape}"), wit);
                }
            }
        }
    }
}

fn run_cross(ctx: &mut Ctx, sk: &SecretKey) {
    let mut rng = ctx.rng("cross");
    let n = ctx.iters(192, 12000);
    let off = ctx.shard as u64;
    for i in off..off + n {
        let len = match i % 4 {
            0 => rng.random_range(9..200),
            1 => rng.random_range(200..4000),
            2 => rng.random_range(4000..32000),
            _ => *[9usize, 41, 49, 50, 64, 960, 1024, 32000].choose(&mut rng).unwrap(),
        };
        macro_rules! x {
            ($e:ty, $en:expr, $d:ty, $dn:expr) => {
                cross_case::<$e, $d>(ctx, &mut rng, $en, $dn, sk, len)
            };
        }
        match i % 12 {
            0 => x!(AontShredder, "aont", RegularShredder, "regular"),
            1 => x!(RegularShredder, "regular", AontShredder, "aont"),
            2 => x!(PetsShredder, "pets", RegularShredder, "regular"),
            3 => x!(RegularShredder, "regular", PetsShredder, "pets"),
            4 => x!(CodingOnlyShredder, "coding-only", RegularShredder, "regular"),
            5 => x!(RegularShredder, "regular", CodingOnlyShredder, "coding-only"),
            6 => x!(AontShredder, "aont", PetsShredder, "pets"),
            7 => x!(PetsShredder, "pets", AontShredder, "aont"),
            8 => x!(AontShredder, "aont", CodingOnlyShredder, "coding-only"),
            9 => x!(CodingOnlyShredder, "coding-only", AontShredder, "aont"),
            10 => x!(PetsShredder, "pets", CodingOnlyShredder, "coding-only"),
            _ => x!(CodingOnlyShredder, "coding-only", PetsShredder, "pets"),
        }
    }
}

/// A hostile leader signs 64 shards that are NOT one Reed-Solomon codeword (a genuine slice with one shard
/// altered before the Merkle tree is built and signed). Every shred validates on its own. Whatever subset a
/// node holds, decoding must fail (the tree rebuilt over the re-derived shards cannot match the signed root)
/// and leave the supplied shreds untouched: the verdict must not depend on the subset.
fn non_codeword_case<S: Shredder>(ctx: &mut Ctx, rng: &mut SRng, name: &'static str, sk: &SecretKey, pk: &PublicKey, payload_len: usize) {
    use crate::props::c15::RefTree;
    use crate::wire::{ShredParts, de_shred};
    let mut sh = S::default();
    let slot = rng.random_range(1..1000u64);
    let (wp, si, last) = (rng.random_bool(0.5), rng.random_range(0..1024usize), rng.random_bool(0.5));
    let Some(slice) = mk_slice(rng, payload_len, wp, slot, si, last) else { return };
    let Ok(Ok(shreds)) = guarded(|| sh.shred(&slice, sk)) else { return };
    let mut parts: Vec<ShredParts> = Vec::new();
    for s in shreds.iter() {
        let Some(p) = ShredParts::parse(&ser(s.as_shred())) else { return };
        parts.push(p);
    }
    if parts[0].data.is_empty() {
        return;
    }
    // alter one shard (data or coding), occasionally two
    let mut altered = vec![rng.random_range(0..TOTAL_SHREDS)];
    if rng.random_bool(0.3) {
        altered.push(rng.random_range(0..TOTAL_SHREDS));
    }
    for &a in &altered {
        let l = parts[a].data.len();
        parts[a].data[rng.random_range(0..l)] ^= 1 << rng.random_range(0..8);
    }
    let leaves: Vec<Vec<u8>> = parts.iter().map(|p| p.data.clone()).collect();
    let rt = RefTree::new(&leaves);
    let mut msg = Vec::with_capacity(49);
    msg.extend_from_slice(&parts[0].slot.to_le_bytes());
    msg.extend_from_slice(&parts[0].slice_index.to_le_bytes());
    msg.push(parts[0].is_last);
    msg.extend_from_slice(&rt.root());
    let sig = ser(&sk.sign_bytes(&msg));
    let mut forged: Vec<ValidatedShred> = Vec::new();
    for (i, p) in parts.iter_mut().enumerate() {
        p.sig.copy_from_slice(&sig);
        p.proof = rt.proof(i);
        let Some(shred) = de_shred(&p.encode()) else { return };
        match ValidatedShred::try_new(shred, None, pk) {
            Ok(v) => forged.push(v),
            Err(_) => {
                ctx.count("non-codeword:harness-built-shred-did-not-validate");
                return;
            }
        }
    }
    ctx.count("non-codeword-slices");
    for shape in ["all64", "first32", "last32", "random32", "random48", "random63", "alternating-even", "alternating-odd"] {
        let sub = subset(rng, shape);
        let mut arr: [Option<ValidatedShred>; TOTAL_SHREDS] = [const { None }; TOTAL_SHREDS];
        for &i in &sub {
            arr[i] = Some(forged[i].clone());
        }
        let before = arr_bytes(&arr);
        let res = guarded(|| sh.deshred(&mut arr));
        ctx.eval();
        let wit = json!({"shredder": name, "payload_len": payload_len, "altered_shards": altered, "subset_shape": shape, "subset": sub});
        match res {
            Err(p) => ctx.violation(format!("C11 {name} deshred {} on a signed non-codeword", p.sig()), p.msg, wit),
            Ok(Err(e)) => {
                ctx.count(&format!("non-codeword:{name}:{e:?}"));
                ctx.distinct(format!("non-codeword:{name}:{shape}:{e:?}"));
                if arr_bytes(&arr) != before {
                    ctx.violation(format!("C11 {name} deshred error {e:?} modified the supplied shreds"), format!("signed non-codeword, {shape}"), wit);
                }
            }
            Ok(Ok(_)) => {
                ctx.violation(
                    format!("C11 {name} deshred accepted shreds that are not one codeword (verdict depends on the subset held) shape={shape}"),
                    format!("altered shards {altered:?}, {} shreds supplied", sub.len()),
                    wit,
                );
            }
        }
    }
}

fn lengths(ctx: &Ctx, max: usize) -> Vec<usize> {
    let mut v = Vec::new();
    if ctx.quick() {
        for base in [0usize, 960, 8192, 20000, max.saturating_sub(130)] {
            for r in 0..64 {
                v.push(base + r);
            }
        }
        v.extend([9, 10, 49, 50, max - 1, max, max + 1, max + 17, 40000]);
    } else {
        v.extend(0..=max + 2);
        v.push(max + 100);
        v.push(70000);
    }
    v
}

fn run_lane<S: Shredder>(ctx: &mut Ctx, name: &'static str, sk: &SecretKey, pk: &PublicKey) {
    let mut lane = Lane { name, sh: S::default(), prev: None };
    let mut rng = ctx.rng(name);
    let mut lens = lengths(ctx, S::MAX_DATA_SIZE);
    if ctx.scale < 1.0 {
        lens.shuffle(&mut ctx.rng_global("scale"));
        lens.truncate(((lens.len() as f64 * ctx.scale) as usize).max(16));
    }
    for (i, &l) in lens.iter().enumerate() {
        if !ctx.mine(i as u64) {
            continue;
        }
        if ctx.quick() {
            for with_parent in [false, true] {
                one_case(ctx, &mut rng, &mut lane, sk, pk, l, with_parent, SUBSET_SHAPES, i % 16 == 0);
            }
        } else {
            let with_parent = rng.random_bool(0.5);
            let mut shapes: Vec<&str> = vec!["random32", "random32", "random32", "random33", "random48", "random63"];
            let mut st = ["first32", "last32", "alternating-even", "alternating-odd", "all64", "random31", "none", "random1-30"];
            st.shuffle(&mut rng);
            shapes.extend(&st[..4]);
            one_case(ctx, &mut rng, &mut lane, sk, pk, l, with_parent, &shapes, i % 64 == 0);
        }
    }
}

pub fn run(ctx: &mut Ctx) -> Result<(), String> {
    let mut krng = mk_rng(ctx.seed, "c11-key");
    let sk = SecretKey::new(&mut krng);
    let pk = sk.to_pk();
    run_lane::<RegularShredder>(ctx, "regular", &sk, &pk);
    run_lane::<CodingOnlyShredder>(ctx, "coding-only", &sk, &pk);
    run_lane::<PetsShredder>(ctx, "pets", &sk, &pk);
    run_lane::<AontShredder>(ctx, "aont", &sk, &pk);
    run_cross(ctx, &sk);
    {
        let mut rng = ctx.rng("non-codeword");
        let n = ctx.iters(320, 16000);
        for i in 0..n {
            let len = match i % 3 {
                0 => rng.random_range(9..300),
                1 => rng.random_range(300..6000),
                _ => rng.random_range(6000..32000),
            };
            match (i + ctx.shard as u64) % 4 {
                0 => non_codeword_case::<RegularShredder>(ctx, &mut rng, "regular", &sk, &pk, len),
                1 => non_codeword_case::<CodingOnlyShredder>(ctx, &mut rng, "coding-only", &sk, &pk, len),
                2 => non_codeword_case::<PetsShredder>(ctx, &mut rng, "pets", &sk, &pk, len),
                _ => non_codeword_case::<AontShredder>(ctx, &mut rng, "aont", &sk, &pk, len),
            }
        }
    }
    ctx.sample(json!({"shredders": ["regular", "coding-only", "pets", "aont"], "subset_shapes": SUBSET_SHAPES, "example": {"shredder": "regular", "payload_len": 8192 + (ctx.shard % 64), "with_parent": true, "shape": "random32"}}));
    Ok(())
}
