//! Adversarial scheduler and Byzantine validator behaviours for cluster executions.

use std::collections::{BTreeMap, BTreeSet};
use std::sync::{Arc, Mutex};
use std::time::Duration;

use alpenglow::consensus::ConsensusMessage;
use rand::prelude::*;

use crate::cluster::Cluster;
use crate::common::{Ep, SRng};
use crate::model::{Bid, H32, MVote};
use crate::net::Datagram;
use crate::poolsim::to_bh;
use crate::wire::*;

#[derive(Clone, Debug)]
pub struct Chaos {
    /// maximum delay before stabilisation
    pub max_delay: Duration,
    pub loss: f64,
    pub dup: f64,
    /// partition: validators in the set cannot talk to the others until `heal`
    pub partition: BTreeSet<usize>,
    pub heal: Duration,
    pub name: &'static str,
}

pub struct SchedState {
    pub rng: SRng,
    pub chaos: Chaos,
    /// stabilisation instant; afterwards every datagram is delivered within `delta`
    pub t_stable: Duration,
    pub delta: Duration,
    /// validators whose dissemination traffic for the given slots is withheld (repair trigger)
    pub withhold: BTreeMap<usize, BTreeSet<u64>>,
    pub delivered_late: u64,
    /// directed rival-split script: notarization votes for `slot` between the two validators in `pair`
    /// are held back, and notarization certificates for `slot` travel slowly (see clusterrun)
    pub rival: Option<RivalSched>,
    /// after stabilisation: dissemination traffic to this validator takes the full delta, everything else
    /// at most an eighth of it (one consistently slow, but timely, correct node)
    pub slow_diss: Option<usize>,
    /// before stabilisation: dissemination traffic to these validators arrives this late (they time out and
    /// skip while the others notarize: split votes that only the fallback mechanism resolves)
    pub late_diss: Option<(BTreeSet<usize>, Duration)>,
    /// all-to-all traffic towards this validator sent in [from, until) is held until `until`
    /// (the flag: dissemination and repair answers are held too, so the node does not learn the blocks either)
    pub laggard: Option<(usize, Duration, Duration, bool)>,
}

#[derive(Clone, Debug)]
pub struct RivalSched {
    pub pair: (usize, usize),
    pub slot: Option<u64>,
    pub vote_delay: Duration,
    pub cert_delay: Duration,
    pub held_votes: u64,
    pub held_certs: u64,
    /// leader of the following window: everything naming version A reaches it late, so that version B
    /// becomes its first ready parent
    pub next_leader: usize,
    pub hash_a: Option<H32>,
    pub hold_a: Duration,
}

pub fn chaos_profiles() -> Vec<Chaos> {
    vec![
        Chaos { max_delay: Duration::from_millis(20), loss: 0.0, dup: 0.0, partition: BTreeSet::new(), heal: Duration::ZERO, name: "calm" },
        Chaos { max_delay: Duration::from_millis(300), loss: 0.02, dup: 0.05, partition: BTreeSet::new(), heal: Duration::ZERO, name: "jitter" },
        Chaos { max_delay: Duration::from_millis(1500), loss: 0.1, dup: 0.1, partition: BTreeSet::new(), heal: Duration::ZERO, name: "slow-lossy" },
        Chaos { max_delay: Duration::from_millis(5000), loss: 0.0, dup: 0.0, partition: BTreeSet::new(), heal: Duration::ZERO, name: "very-slow" },
        Chaos { max_delay: Duration::from_millis(100), loss: 0.3, dup: 0.0, partition: BTreeSet::new(), heal: Duration::ZERO, name: "heavy-loss" },
    ]
}

/// Installs the scheduler as the network policy.
pub fn install_scheduler(cl: &Cluster, st: Arc<Mutex<SchedState>>) {
    cl.net.set_policy(Box::new(move |d: &Datagram| {
        let mut s = st.lock().unwrap();
        if d.to.0 == Ep::Diss {
            if let Some(slots) = s.withhold.get(&d.to.1) {
                if let Some(p) = ShredParts::parse(&d.bytes) {
                    if slots.contains(&p.slot) {
                        return vec![];
                    }
                }
            }
        }
        if let Some((node, from, until, isolate)) = s.laggard {
            let held_ep = d.to.0 == Ep::All2All || (isolate && matches!(d.to.0, Ep::Diss | Ep::RepairReq));
            if held_ep && d.to.1 == node && d.from.1 != node && d.from.1 != usize::MAX && d.t >= from && d.t < until {
                let extra = s.rng.random_range(0..150);
                return vec![until.saturating_sub(d.t) + Duration::from_millis(extra)];
            }
        }
        if d.to.0 == Ep::All2All && d.from.1 != d.to.1 {
            if let Some(r) = s.rival.clone() {
                if let Some(slot) = r.slot {
                    match crate::wire::de_consensus(&d.bytes) {
                        Some(ConsensusMessage::Vote(v)) => {
                            let m = crate::poolsim::mvote_of(&v);
                            let between = (d.from.1 == r.pair.0 && d.to.1 == r.pair.1) || (d.from.1 == r.pair.1 && d.to.1 == r.pair.0);
                            if between && m.slot == slot && m.kind == VK::Notar {
                                s.rival.as_mut().unwrap().held_votes += 1;
                                return vec![r.vote_delay];
                            }
                            if d.to.1 == r.next_leader && m.slot == slot && m.hash.is_some() && m.hash == r.hash_a {
                                s.rival.as_mut().unwrap().held_votes += 1;
                                return vec![r.hold_a];
                            }
                        }
                        Some(ConsensusMessage::Cert(c)) => {
                            let m = crate::poolsim::mcert_of(&c);
                            if m.slot == slot && matches!(m.kind, CK::Notar) {
                                s.rival.as_mut().unwrap().held_certs += 1;
                                return vec![r.cert_delay];
                            }
                            if d.to.1 == r.next_leader && m.slot == slot && m.hash.is_some() && m.hash == r.hash_a {
                                s.rival.as_mut().unwrap().held_certs += 1;
                                return vec![r.hold_a];
                            }
                        }
                        None => {}
                    }
                }
            }
        }
        if d.t >= s.t_stable {
            if let Some(slow) = s.slow_diss {
                let us = s.delta.as_micros() as u64;
                if d.to.0 == Ep::Diss && d.to.1 == slow {
                    return vec![Duration::from_micros(us)];
                }
                let x = s.rng.random_range(0..=us / 8);
                return vec![Duration::from_micros(x)];
            }
            let ms = s.delta.as_micros() as u64;
            let x = if ms == 0 { 0 } else { s.rng.random_range(0..=ms) };
            return vec![Duration::from_micros(x)];
        }
        // messages a node sends to itself are local
        if d.from.1 == d.to.1 {
            return vec![Duration::ZERO];
        }
        if let Some((set, late)) = &s.late_diss {
            // (repair answers to them are late as well, otherwise they fetch the block from their peers in time)
            if matches!(d.to.0, Ep::Diss | Ep::RepairReq) && set.contains(&d.to.1) {
                return vec![*late];
            }
        }
        let c = s.chaos.clone();
        if !c.partition.is_empty() && d.t < c.heal && (c.partition.contains(&d.from.1) != c.partition.contains(&d.to.1)) {
            // held until the partition heals (finite delay), occasionally lost
            if s.rng.random_bool(c.loss) {
                return vec![];
            }
            let extra = s.rng.random_range(0..200);
            return vec![c.heal.saturating_sub(d.t) + Duration::from_millis(extra)];
        }
        if s.rng.random_bool(c.loss) {
            return vec![];
        }
        let max = c.max_delay.as_micros() as u64;
        let mut out = vec![Duration::from_micros(s.rng.random_range(0..=max))];
        if s.rng.random_bool(c.dup) {
            out.push(Duration::from_micros(s.rng.random_range(0..=max)));
        }
        s.delivered_late += 1;
        out
    }));
}

#[derive(Clone, Copy, Debug, PartialEq, Eq)]
pub enum ByzVote {
    Silent,
    HonestLooking,
    Amplify,
    Split,
    FakeBlock,
    LateFinal,
    /// notarizes every block it sees, never casts a finalization vote
    NotarOnly,
    /// rival-split script: notarizes both versions (version A only towards the Y group, so that the X
    /// group sees nothing but its own votes for A), finalization vote to everybody
    RivalScript,
}

pub const BYZ_VOTE_MODES: [ByzVote; 6] = [ByzVote::Silent, ByzVote::HonestLooking, ByzVote::Amplify, ByzVote::Split, ByzVote::FakeBlock, ByzVote::LateFinal];

pub struct ByzState {
    /// rival-split script: the validators that received version A
    pub rival_x_group: Vec<usize>,
    pub mode: BTreeMap<usize, ByzVote>,
    pub seen_blocks: BTreeSet<Bid>,
    pub acted: BTreeSet<(usize, u64, H32)>,
    pub skipped: BTreeSet<(usize, u64)>,
    pub votes_cursor: usize,
    /// every vote the adversary has signed: (byz validator, vote)
    pub own_votes: Vec<MVote>,
    pub certs_built: BTreeSet<(CK, u64, Option<H32>)>,
    pub certs_sent: u64,
    pub votes_sent: u64,
}

impl ByzState {
    pub fn new(byz: &BTreeSet<usize>, rng: &mut SRng) -> Self {
        Self {
            rival_x_group: Vec::new(),
            mode: byz.iter().map(|v| (*v, *BYZ_VOTE_MODES.choose(rng).unwrap())).collect(),
            seen_blocks: BTreeSet::new(),
            acted: BTreeSet::new(),
            skipped: BTreeSet::new(),
            votes_cursor: 0,
            own_votes: Vec::new(),
            certs_built: BTreeSet::new(),
            certs_sent: 0,
            votes_sent: 0,
        }
    }
}

fn send_vote(cl: &Cluster, st: &mut ByzState, from: usize, kind: VK, slot: u64, hash: Option<H32>, targets: &[usize]) {
    let bh = hash.as_ref().map(to_bh);
    let v = sign_vote(&cl.ep, from, kind, slot, bh.as_ref());
    st.own_votes.push(MVote { signer: from, kind, slot, hash: if kind.has_hash() { hash } else { None } });
    st.votes_sent += targets.len() as u64;
    cl.adv_send_consensus(from, targets, &ConsensusMessage::Vote(v), true);
}

/// One adversary step: reacts to everything newly seen on the wire.
pub fn byz_step(cl: &Cluster, st: &mut ByzState, rng: &mut SRng) {
    let correct = cl.correct();
    if correct.is_empty() {
        return;
    }
    // learn blocks from honest notar votes
    let new_votes: Vec<MVote> = {
        let l = cl.log.lock().unwrap();
        let v = l.votes_sent[st.votes_cursor..].iter().map(|x| x.2.clone()).collect();
        st.votes_cursor = l.votes_sent.len();
        v
    };
    let mut new_blocks: Vec<Bid> = Vec::new();
    let mut new_slots: BTreeSet<u64> = BTreeSet::new();
    for v in &new_votes {
        new_slots.insert(v.slot);
        if let (VK::Notar | VK::NotarFallback, Some(h)) = (v.kind, v.hash) {
            if st.seen_blocks.insert((v.slot, h)) {
                new_blocks.push((v.slot, h));
            }
        }
    }
    let byz: Vec<usize> = st.mode.keys().copied().collect();
    for b in byz {
        let mode = st.mode[&b];
        for &(slot, h) in &new_blocks {
            if !st.acted.insert((b, slot, h)) {
                continue;
            }
            match mode {
                ByzVote::Silent => {}
                ByzVote::HonestLooking => {
                    send_vote(cl, st, b, VK::Notar, slot, Some(h), &correct);
                    send_vote(cl, st, b, VK::Final, slot, None, &correct);
                }
                ByzVote::Amplify => {
                    for k in ALL_VK {
                        let mut t = correct.clone();
                        t.shuffle(rng);
                        send_vote(cl, st, b, k, slot, Some(h), &t);
                    }
                }
                ByzVote::Split => {
                    let mut t = correct.clone();
                    t.shuffle(rng);
                    let half = t.len() / 2;
                    send_vote(cl, st, b, VK::Notar, slot, Some(h), &t[..half]);
                    send_vote(cl, st, b, VK::Skip, slot, None, &t[half..]);
                    send_vote(cl, st, b, VK::NotarFallback, slot, Some(h), &t[half..]);
                    send_vote(cl, st, b, VK::SkipFallback, slot, None, &t[..half]);
                }
                ByzVote::FakeBlock => {
                    let mut fake = h;
                    fake[0] ^= 0xff;
                    send_vote(cl, st, b, VK::Notar, slot, Some(fake), &correct);
                    send_vote(cl, st, b, VK::NotarFallback, slot, Some(h), &correct);
                    send_vote(cl, st, b, VK::Final, slot, None, &correct);
                }
                ByzVote::NotarOnly => {
                    send_vote(cl, st, b, VK::Notar, slot, Some(h), &correct);
                }
                ByzVote::RivalScript => {
                    // a block first voted for by the X group is version A
                    let first_voter = new_votes.iter().find(|v| v.kind == VK::Notar && v.slot == slot && v.hash == Some(h)).map(|v| v.signer);
                    let is_a = first_voter.is_some_and(|f| st.rival_x_group.contains(&f));
                    let targets: Vec<usize> = if is_a { correct.iter().copied().filter(|c| !st.rival_x_group.contains(c)).collect() } else { correct.clone() };
                    send_vote(cl, st, b, VK::Notar, slot, Some(h), &targets);
                    send_vote(cl, st, b, VK::Final, slot, None, &correct);
                }
                ByzVote::LateFinal => {
                    send_vote(cl, st, b, VK::Notar, slot, Some(h), &correct);
                    send_vote(cl, st, b, VK::SkipFallback, slot, None, &correct);
                    send_vote(cl, st, b, VK::Final, slot, None, &correct);
                }
            }
        }
        // react to skip activity too
        for &slot in &new_slots {
            if matches!(mode, ByzVote::Amplify | ByzVote::Split) && st.skipped.insert((b, slot)) {
                let mut t = correct.clone();
                t.shuffle(rng);
                let k = rng.random_range(0..=t.len());
                send_vote(cl, st, b, VK::Skip, slot, None, &t[..k]);
                send_vote(cl, st, b, VK::SkipFallback, slot, None, &t[k..]);
            }
        }
    }
}

/// Assembles certificates from all votes seen on the wire plus the adversary's own votes and
/// forwards each to a random subset of the correct nodes (selective forwarding).
/// Every certificate that can be assembled from the votes seen on the wire plus the adversary's own votes
/// (slot >= min_slot): (kind, slot, block, first-half signers, second-half signers).
pub fn constructible_certs(cl: &Cluster, st: &ByzState, min_slot: u64) -> Vec<(CK, u64, Option<H32>, Vec<usize>, Vec<usize>)> {
    let mut by_key: BTreeMap<(VK, u64, Option<H32>), BTreeSet<usize>> = BTreeMap::new();
    {
        let l = cl.log.lock().unwrap();
        for (_, _, v) in l.votes_sent.iter() {
            if v.slot >= min_slot {
                by_key.entry((v.kind, v.slot, v.hash)).or_default().insert(v.signer);
            }
        }
    }
    for v in &st.own_votes {
        if v.slot >= min_slot {
            by_key.entry((v.kind, v.slot, v.hash)).or_default().insert(v.signer);
        }
    }
    let total = cl.ep.total();
    let stake = |s: &BTreeSet<usize>| -> u128 { s.iter().map(|i| cl.ep.stakes[*i] as u128).sum() };
    let mut todo: Vec<(CK, u64, Option<H32>, Vec<usize>, Vec<usize>)> = Vec::new();
    let empty = BTreeSet::new();
    let keys: Vec<(VK, u64, Option<H32>)> = by_key.keys().cloned().collect();
    for (k, slot, h) in keys {
        match k {
            VK::Notar => {
                let nv = by_key.get(&(VK::Notar, slot, h)).unwrap_or(&empty);
                let fv: BTreeSet<usize> = by_key.get(&(VK::NotarFallback, slot, h)).unwrap_or(&empty).difference(nv).copied().collect();
                if stake(nv) * 5 >= 3 * total {
                    todo.push((CK::Notar, slot, h, nv.iter().copied().collect(), vec![]));
                }
                if stake(nv) * 5 >= 4 * total {
                    todo.push((CK::FastFinal, slot, h, nv.iter().copied().collect(), vec![]));
                }
                if (stake(nv) + stake(&fv)) * 5 >= 3 * total {
                    todo.push((CK::NotarFallback, slot, h, nv.iter().copied().collect(), fv.iter().copied().collect()));
                }
            }
            VK::Skip => {
                let sv = by_key.get(&(VK::Skip, slot, None)).unwrap_or(&empty);
                let fv: BTreeSet<usize> = by_key.get(&(VK::SkipFallback, slot, None)).unwrap_or(&empty).difference(sv).copied().collect();
                if (stake(sv) + stake(&fv)) * 5 >= 3 * total {
                    todo.push((CK::Skip, slot, None, sv.iter().copied().collect(), fv.iter().copied().collect()));
                }
            }
            VK::Final => {
                let fv = by_key.get(&(VK::Final, slot, None)).unwrap_or(&empty);
                if stake(fv) * 5 >= 3 * total {
                    todo.push((CK::Final, slot, None, fv.iter().copied().collect(), vec![]));
                }
            }
            _ => {}
        }
    }
    todo
}

/// Assembles certificates from all votes seen on the wire plus the adversary's own votes and
/// forwards each to a random subset of the correct nodes (selective forwarding).
pub fn byz_certs(cl: &Cluster, st: &mut ByzState, rng: &mut SRng, min_slot: u64, to_all: bool) {
    let correct = cl.correct();
    let Some(&from) = st.mode.keys().next() else { return };
    let todo = constructible_certs(cl, st, min_slot);
    for (ck, slot, h, a, b) in todo {
        if !st.certs_built.insert((ck, slot, h)) {
            continue;
        }
        let parts = build_cert(&cl.ep, ck, slot, h.as_ref(), &a, &b);
        let Some(c) = parts.decode() else { continue };
        let mut t = correct.clone();
        t.shuffle(rng);
        let k = if to_all { t.len() } else { rng.random_range(0..=t.len()) };
        st.certs_sent += k as u64;
        cl.adv_send_consensus(from, &t[..k], &ConsensusMessage::Cert(c), true);
    }
}

/// Feeds a lagging node (whose all-to-all traffic is being held) in an adversarial order: first what
/// finalizes the most recent slot, then material for earlier slots - certificates in random order, or only
/// the votes (replayed from the wire) so that the node has to assemble the certificates itself.
pub fn laggard_feed(cl: &Cluster, st: &ByzState, rng: &mut SRng, node: usize, votes_only: bool) -> (u64, usize) {
    let all = constructible_certs(cl, st, 0);
    let fin_slot = all.iter().filter(|c| matches!(c.0, CK::FastFinal | CK::Final)).map(|c| c.1).max().unwrap_or(0);
    if fin_slot == 0 {
        return (0, 0);
    }
    let mut sent = 0;
    let mut send_cert = |c: &(CK, u64, Option<H32>, Vec<usize>, Vec<usize>)| {
        if let Some(cert) = build_cert(&cl.ep, c.0, c.1, c.2.as_ref(), &c.3, &c.4).decode() {
            cl.adv_send_consensus(usize::MAX, &[node], &ConsensusMessage::Cert(cert), false);
            sent += 1;
        }
    };
    // 1. the finalization of the most recent slot (a final certificate alone first, its notarization later)
    let mut first: Vec<&(CK, u64, Option<H32>, Vec<usize>, Vec<usize>)> = all.iter().filter(|c| c.1 == fin_slot && matches!(c.0, CK::FastFinal | CK::Final)).collect();
    first.sort_by_key(|c| if c.0 == CK::Final { 0 } else { 1 });
    for c in first {
        send_cert(c);
    }
    let lo = fin_slot.saturating_sub(14);
    if votes_only {
        // 2a. the votes of the earlier slots, replayed in random order
        let mut votes: Vec<MVote> = { cl.log.lock().unwrap().votes_sent.iter().map(|x| x.2.clone()).filter(|v| v.slot >= lo && v.slot < fin_slot).collect() };
        votes.extend(st.own_votes.iter().filter(|v| v.slot >= lo && v.slot < fin_slot).cloned());
        votes.shuffle(rng);
        for v in votes {
            let bh = v.hash.as_ref().map(to_bh);
            let sv = sign_vote(&cl.ep, v.signer, v.kind, v.slot, bh.as_ref());
            cl.adv_send_consensus(usize::MAX, &[node], &ConsensusMessage::Vote(sv), false);
            sent += 1;
        }
    } else {
        // 2b. certificates of the earlier slots in random order, then the rest of the most recent slot
        let mut rest: Vec<&(CK, u64, Option<H32>, Vec<usize>, Vec<usize>)> = all.iter().filter(|c| c.1 >= lo && c.1 < fin_slot).collect();
        rest.shuffle(rng);
        for c in rest {
            send_cert(c);
        }
        for c in all.iter().filter(|c| c.1 == fin_slot && !matches!(c.0, CK::FastFinal | CK::Final)) {
            send_cert(c);
        }
    }
    (fin_slot, sent)
}
