//! One whole-cluster execution: configuration, driver loop (virtual time), collected observations.

use std::collections::{BTreeMap, BTreeSet};
use std::sync::{Arc, Mutex};
use std::time::Duration;

use alpenglow::Transaction;
use rand::prelude::*;
use serde_json::{Value, json};

use crate::adversary::*;
use crate::cluster::*;
use crate::common::{Ep, Epoch, SRng};
use crate::evidence::{PanicRec, take_panics};
use crate::model::{Bid, FinEv, H32, MCert};
use crate::props::c13::{SliceSpec, build_block, tx_data};
use crate::wire::*;

#[derive(Clone, Copy, Debug, PartialEq, Eq)]
pub enum ByzLeader {
    Silent,
    OneBlock,
    TwoBlocks,
    /// equivocates in the last slot of its window: version A to the next leader, version B to the rest
    TwoBlocksLastSlot,
    Late,
    /// one block per slot, the first of them built on an older block than the tip (bypassing the latest block)
    OldParent,
    /// directed: two blocks in the window's first slot, version A to `RunCfg::rival`'s X group and version B
    /// to its Y group, nothing afterwards (the rest of the window is skipped)
    RivalSplit,
}

/// Roles of the directed rival-split script (validator indices): the Byzantine leader z votes for both
/// blocks; u and a receive version A (u + a + z >= 60 %), c1 and c2 version B (c1 + c2 (+ z) >= 40 %).
#[derive(Clone, Debug)]
pub struct Rival {
    pub z: usize,
    pub u: usize,
    pub a: usize,
    pub c1: usize,
    pub c2: usize,
}

#[derive(Clone)]
pub struct RunCfg {
    pub ep: Epoch,
    pub byz: BTreeSet<usize>,
    pub byz_leader: ByzLeader,
    pub byz_votes: bool,
    pub byz_certs: bool,
    /// (validator, crash instant)
    pub crashes: Vec<(usize, Duration)>,
    pub chaos: Chaos,
    pub t_stable: Duration,
    pub delta: Duration,
    pub duration: Duration,
    pub diss: DissKind,
    /// transactions per virtual second offered to every node (0 = none)
    pub tx_rate: u32,
    /// (validator, slots whose dissemination traffic is withheld from it)
    pub withhold: Option<(usize, BTreeSet<u64>)>,
    /// hostile phase: (from, to, input classes)
    pub hostile: Option<(Duration, Duration, Vec<&'static str>)>,
    pub rival: Option<Rival>,
    /// record the route of every shred (C16 node-level delivery monitor)
    pub track_routes: bool,
    /// force one behaviour on every Byzantine voter
    pub force_byz_mode: Option<ByzVote>,
    /// see `SchedState::slow_diss`
    pub slow_diss: Option<usize>,
    /// directed: crash this (correct) leader shortly after votes for the first slot of this window appear,
    /// so that its window consists of one certified block followed by skipped slots
    pub crash_after_first_block: Option<(usize, u64)>,
    /// see `SchedState::late_diss`
    pub late_diss: Option<(BTreeSet<usize>, Duration)>,
    /// lagging node: (validator, from, until, votes_only). Its all-to-all traffic sent in [from, until) is
    /// held until `until`; 500 ms before that the adversary feeds it in an adversarial order
    /// (`adversary::laggard_feed`)
    pub laggard: Option<(usize, Duration, Duration, bool)>,
    pub label: String,
}

impl RunCfg {
    pub fn describe(&self) -> Value {
        json!({"n": self.ep.n(), "stakes": self.ep.stakes, "family": self.ep.family, "byzantine": self.byz, "byz_leader": format!("{:?}", self.byz_leader),
               "byz_votes": self.byz_votes, "byz_certs": self.byz_certs,
               "crashes": self.crashes.iter().map(|(v, t)| format!("{v}@{}ms", t.as_millis())).collect::<Vec<_>>(), "chaos": self.chaos.name,
               "t_stable_ms": self.t_stable.as_millis() as u64, "delta_ms": self.delta.as_millis() as u64, "duration_ms": self.duration.as_millis() as u64,
               "dissemination": format!("{:?}", self.diss), "tx_rate": self.tx_rate, "label": self.label, "rival_roles": self.rival.as_ref().map(|r| format!("{r:?}")),
               "withhold": self.withhold.as_ref().map(|(v, s)| format!("node {v} slots {s:?}")),
               "hostile": self.hostile.as_ref().map(|(a, b, c)| format!("{}..{} ms {:?}", a.as_millis(), b.as_millis(), c))})
    }
}

pub struct RunOut {
    pub fin_logs: BTreeMap<usize, Vec<FinEv>>,
    /// (virtual time, finalized slot per correct node)
    pub samples: Vec<(Duration, BTreeMap<usize, u64>)>,
    pub held: BTreeMap<usize, Vec<MCert>>,
    pub tree: BTreeMap<Bid, Bid>,
    pub panics: Vec<PanicRec>,
    pub dead_tasks: Vec<usize>,
    pub correct: Vec<usize>,
    pub crashed: BTreeSet<usize>,
    pub votes_sent: Vec<(Duration, usize, crate::model::MVote)>,
    pub votes_delivered: Vec<(Duration, usize, crate::model::MVote)>,
    pub certs_sent: Vec<(Duration, usize, MCert)>,
    pub certs_delivered: Vec<(Duration, usize, MCert)>,
    pub first_shred: BTreeMap<u64, Duration>,
    pub byz_own_votes: Vec<crate::model::MVote>,
    pub byz_blocks: Vec<(Bid, Bid)>,
    pub net_stats: (u64, u64, u64, usize),
    pub oversize: Vec<(String, usize)>,
    pub repair_requests: u64,
    pub repair_responses: u64,
    pub byz_votes_sent: u64,
    pub byz_certs_sent: u64,
    pub byz_modes: BTreeMap<usize, String>,
    pub skip_cert_bytes: BTreeMap<u64, Vec<Arc<Vec<u8>>>>,
    pub hostile_sent: BTreeMap<String, u64>,
    /// (class, role of the receiving node when it was sent)
    pub hostile_roles: BTreeSet<String>,
    /// None = no probe made; Some(answered)
    pub probe: Option<bool>,
    /// lagging-node scenario: (slot fed as finalized, messages fed, certificates the node should hold but does not)
    pub laggard: Option<(u64, usize, Vec<String>)>,
    /// certificates broadcast by correct nodes that do not pass validation: (sender, summary)
    pub invalid_certs_sent: Vec<(usize, MCert)>,
    /// datagrams dropped because more than the bounded number were in flight (request storms)
    pub overflow_dropped: u64,
    /// per node: blocks waiting for a parent certificate at the end of the run (hook), for diagnosis
    pub waiting_at_end: BTreeMap<usize, Vec<(Bid, Bid)>>,
    pub routes: BTreeMap<(u64, u64, u64), crate::cluster::ShredRoute>,
}

fn window_leader(n: usize, w: u64) -> usize {
    (w % n as u64) as usize
}

/// Builds a small valid block for a Byzantine leader.
fn byz_block(rng: &mut SRng, ep: &Epoch, leader: usize, slot: u64, parent: Bid, salt: u8) -> crate::props::c13::LBlock {
    let nsl = rng.random_range(1..=2);
    let specs: Vec<SliceSpec> = (0..nsl)
        .map(|i| {
            let txs = vec![vec![salt; rng.random_range(1..40)]];
            SliceSpec { parent: if i == 0 { Some(parent) } else { None }, is_last: i + 1 == nsl, data: tx_data(&txs), txs }
        })
        .collect();
    build_block(&ep.sks[leader], slot, &specs)
}

pub async fn execute(cfg: &RunCfg, rng: &mut SRng) -> RunOut {
    let _ = take_panics();
    let n = cfg.ep.n();
    let mut cl = Cluster::new(cfg.ep.clone(), cfg.byz.clone(), cfg.diss);
    let sched = Arc::new(Mutex::new(SchedState {
        rng: crate::common::mk_rng(rng.random(), "sched"),
        chaos: cfg.chaos.clone(),
        t_stable: cfg.t_stable,
        delta: cfg.delta,
        withhold: cfg.withhold.iter().cloned().collect(),
        delivered_late: 0,
        slow_diss: cfg.slow_diss,
        late_diss: cfg.late_diss.clone(),
        laggard: cfg.laggard.map(|(v, a, b, votes_only)| (v, a, b, votes_only)),
        rival: cfg.rival.as_ref().map(|r| RivalSched { pair: (r.u, r.a), slot: None, vote_delay: Duration::from_millis(5000), cert_delay: Duration::from_millis(rng.random_range(150..380)), held_votes: 0, held_certs: 0, next_leader: (r.z + 1) % n, hash_a: None, hold_a: Duration::from_millis(450) }),
    }));
    cl.log.lock().unwrap().track_routes = cfg.track_routes;
    install_scheduler(&cl, sched.clone());
    let mut byz = ByzState::new(&cfg.byz, rng);
    if !cfg.byz_votes {
        for m in byz.mode.values_mut() {
            *m = ByzVote::Silent;
        }
    }
    if let Some(fm) = cfg.force_byz_mode {
        for m in byz.mode.values_mut() {
            *m = fm;
        }
    }
    if cfg.rival.is_some() {
        // notarization and finalization votes for every block seen, i.e. for both versions
        for m in byz.mode.values_mut() {
            *m = ByzVote::RivalScript;
        }
        let r = cfg.rival.as_ref().unwrap();
        byz.rival_x_group = vec![r.u, r.a];
    }
    let byz_modes: BTreeMap<usize, String> = byz.mode.iter().map(|(v, m)| (*v, format!("{m:?}"))).collect();
    let mut samples = Vec::new();
    let mut byz_blocks: Vec<(Bid, Bid)> = Vec::new();
    let mut led_windows: BTreeSet<u64> = BTreeSet::new();
    let mut pending_sends: Vec<(Duration, usize, usize, Vec<u8>)> = Vec::new(); // (at, from, to, bytes)
    let step = Duration::from_millis(10);
    let mut now = Duration::ZERO;
    let mut crashes = cfg.crashes.clone();
    let mut dyn_crash_at: Option<Duration> = None;
    let mut lag_fed = false;
    let mut lag_info: Option<(u64, usize, Vec<String>)> = None;
    let mut lag_check_at: Option<Duration> = None;
    let mut tx_acc = 0f64;
    let mut max_slot_seen = 0u64;
    let mut hostile_sent: BTreeMap<String, u64> = BTreeMap::new();
    let mut hostile_roles: BTreeSet<String> = BTreeSet::new();
    let mut hrng = crate::common::mk_rng(rng.random(), "hostile");
    while now < cfg.duration {
        tokio::time::sleep(step).await;
        now += step;
        // crashes
        crashes.retain(|(v, t)| {
            if *t <= now {
                cl.crash(*v);
                false
            } else {
                true
            }
        });
        if let Some((v, w)) = cfg.crash_after_first_block {
            if !cl.crashed.contains(&v) && dyn_crash_at.is_none() {
                let seen = { cl.log.lock().unwrap().votes_sent.iter().any(|x| x.2.slot == w * 4 && x.2.kind == VK::Notar) };
                if seen {
                    dyn_crash_at = Some(now + Duration::from_millis(120));
                }
            }
            if dyn_crash_at.is_some_and(|t| t <= now) && !cl.crashed.contains(&v) {
                cl.crash(v);
            }
        }
        // client transactions
        if cfg.tx_rate > 0 {
            tx_acc += cfg.tx_rate as f64 * step.as_secs_f64();
            while tx_acc >= 1.0 {
                tx_acc -= 1.0;
                let len = *[0usize, 1, 64, 200, 512].choose(rng).unwrap();
                let mut t = vec![0u8; len];
                rng.fill_bytes(&mut t);
                let b = ser(&Transaction(t));
                // only to nodes whose leader window is at least two windows away: the block producer times
                // slices with std::time::Instant, so under virtual time a transaction arriving *during*
                // slice production restarts the slice timer (harness artefact); queued ones are drained at once
                let cur_w = max_slot_seen / 4;
                for v in cl.correct() {
                    let busy = (0..3).any(|k| window_leader(n, cur_w + k) == v);
                    if !busy {
                        cl.net.inject((Ep::Tx, v), b.clone());
                    }
                }
            }
        }
        // Byzantine voters / certificate forwarding
        if !cfg.byz.is_empty() {
            byz_step(&cl, &mut byz, rng);
            if cfg.byz_certs && (now.as_millis() / 10) % 7 == 0 {
                byz_certs(&cl, &mut byz, rng, max_slot_seen.saturating_sub(12), cfg.rival.is_some());
            }
        }
        if let Some((node, _from, until, votes_only)) = cfg.laggard {
            if !lag_fed && now + Duration::from_millis(500) >= until && !cl.crashed.contains(&node) {
                lag_fed = true;
                let (fs, sent) = laggard_feed(&cl, &byz, rng, node, votes_only);
                lag_info = Some((fs, sent, Vec::new()));
                lag_check_at = Some(now + Duration::from_millis(300));
            }
            if lag_check_at.is_some_and(|t| t <= now) && !cl.crashed.contains(&node) {
                lag_check_at = None;
                // C03 at node level: what the votes delivered to the node justify, it must hold (for the slots it
                // still retains)
                let snap = cl.nodes[&node].pool.read().await.verif_snapshot(usize::MAX);
                let first_unpruned = snap.first_unpruned_slot.inner();
                let held: BTreeSet<(CK, u64, Option<H32>)> = snap.certs.iter().map(crate::poolsim::mcert_of).map(|c| (c.kind, c.slot, if c.kind == CK::NotarFallback || c.kind == CK::Notar || c.kind == CK::FastFinal { c.hash } else { None })).collect();
                let mut by_key: BTreeMap<(VK, u64, Option<H32>), BTreeSet<usize>> = BTreeMap::new();
                {
                    let l = cl.log.lock().unwrap();
                    for (_, to, v) in l.votes_delivered.iter() {
                        if *to == node && v.slot >= first_unpruned && v.signer < n {
                            by_key.entry((v.kind, v.slot, v.hash)).or_default().insert(v.signer);
                        }
                    }
                }
                let total = cfg.ep.total();
                let st = |s: &BTreeSet<usize>| -> u128 { s.iter().map(|i| cfg.ep.stakes[*i] as u128).sum() };
                let mut missing = Vec::new();
                for ((k, slot, h), voters) in &by_key {
                    if *k == VK::Notar && st(voters) * 5 >= 3 * total && !held.contains(&(CK::Notar, *slot, *h)) && !held.iter().any(|c| c.0 == CK::Notar && c.1 == *slot) {
                        missing.push(format!("notar@{slot}"));
                    }
                    if *k == VK::Skip && st(voters) * 5 >= 3 * total && !held.contains(&(CK::Skip, *slot, None)) {
                        missing.push(format!("skip@{slot}"));
                    }
                    if *k == VK::Final && st(voters) * 5 >= 3 * total && !held.contains(&(CK::Final, *slot, None)) {
                        missing.push(format!("final@{slot}"));
                    }
                }
                if let Some(li) = lag_info.as_mut() {
                    li.2 = missing;
                }
            }
        }
        // Byzantine leaders: act when the previous window is being voted on
        {
            let seen_max = { cl.log.lock().unwrap().votes_sent.iter().map(|v| v.2.slot).max().unwrap_or(0) };
            max_slot_seen = max_slot_seen.max(seen_max);
            let w = max_slot_seen / 4 + 1;
            let leader = window_leader(n, w);
            // act once votes for the last slot of the preceding window are on the wire, so that the block
            // extends the tip the correct nodes will accept as parent (an earlier start builds on a stale
            // parent and the block is simply ignored)
            let trigger = max_slot_seen % 4 == 3;
            if cfg.byz.contains(&leader) && trigger && led_windows.insert(w) && cfg.byz_leader != ByzLeader::Silent {
                // parent: the most recent block seen in honest votes
                let mut parent: Bid = byz.seen_blocks.iter().filter(|b| b.0 < w * 4).max_by_key(|b| b.0).copied().unwrap_or((0, [0; 32]));
                let jump_inside = rng.random_bool(0.5);
                if cfg.byz_leader == ByzLeader::OldParent && !jump_inside {
                    // bypass the tip: the most recent block of an earlier slot than the tip's
                    if let Some(older) = byz.seen_blocks.iter().filter(|b| b.0 < parent.0).max_by_key(|b| b.0).copied() {
                        parent = older;
                    }
                }
                let targets = cl.correct();
                let mut par = parent;
                let mut own_chain: Vec<Bid> = Vec::new();
                let base = now + Duration::from_millis(if cfg.byz_leader == ByzLeader::Late { 1200 } else { 60 });
                for (k, slot) in (w * 4..w * 4 + 4).enumerate() {
                    let at = base + Duration::from_millis(400 * k as u64);
                    if cfg.byz_leader == ByzLeader::RivalSplit && k > 0 {
                        break;
                    }
                    if cfg.byz_leader == ByzLeader::OldParent && k == 2 && own_chain.len() == 2 && jump_inside {
                        // ... and inside the window: the third block extends the first, jumping over the second
                        par = own_chain[0];
                    }
                    let a = byz_block(rng, &cfg.ep, leader, slot, par, 1);
                    byz_blocks.push(((slot, a.hash), par));
                    own_chain.push((slot, a.hash));
                    if cfg.byz_leader == ByzLeader::TwoBlocksLastSlot && k == 3 {
                        let b = byz_block(rng, &cfg.ep, leader, slot, par, 2);
                        byz_blocks.push(((slot, b.hash), par));
                        let next_leader = window_leader(n, w + 1);
                        for &to in &targets {
                            let blk = if to == next_leader { &a } else { &b };
                            for s in &blk.bytes {
                                for sh in s {
                                    pending_sends.push((at, leader, to, sh.clone()));
                                }
                            }
                        }
                    } else if cfg.byz_leader == ByzLeader::RivalSplit {
                        let r = cfg.rival.as_ref().expect("rival roles");
                        let b = byz_block(rng, &cfg.ep, leader, slot, par, 2);
                        byz_blocks.push(((slot, b.hash), par));
                        {
                            let mut sl = sched.lock().unwrap();
                            let rs = sl.rival.as_mut().unwrap();
                            rs.slot = Some(slot);
                            rs.hash_a = Some(a.hash);
                        }
                        for (grp, blk) in [([r.u, r.a], &a), ([r.c1, r.c2], &b)] {
                            for to in grp {
                                for s in &blk.bytes {
                                    for sh in s {
                                        pending_sends.push((at, leader, to, sh.clone()));
                                    }
                                }
                            }
                        }
                    } else if cfg.byz_leader == ByzLeader::TwoBlocks && k == 0 {
                        let b = byz_block(rng, &cfg.ep, leader, slot, par, 2);
                        byz_blocks.push(((slot, b.hash), par));
                        let mut t = targets.clone();
                        t.shuffle(rng);
                        let half = t.len() / 2;
                        for (ti, &to) in t.iter().enumerate() {
                            let blk = if ti < half { &a } else { &b };
                            for s in &blk.bytes {
                                for sh in s {
                                    pending_sends.push((at, leader, to, sh.clone()));
                                }
                            }
                            // a few shreds of the other version reveal the equivocation
                            let other = if ti < half { &b } else { &a };
                            for sh in other.bytes[0].iter().take(rng.random_range(0..3)) {
                                pending_sends.push((at + Duration::from_millis(50), leader, to, sh.clone()));
                            }
                        }
                    } else {
                        for &to in &targets {
                            for s in &a.bytes {
                                for sh in s {
                                    pending_sends.push((at, leader, to, sh.clone()));
                                }
                            }
                        }
                    }
                    par = (slot, a.hash);
                }
            }
        }
        let due: Vec<(Duration, usize, usize, Vec<u8>)> = {
            let (d, rest): (Vec<_>, Vec<_>) = pending_sends.drain(..).partition(|x| x.0 <= now);
            pending_sends = rest;
            d
        };
        for (_, from, to, b) in due {
            cl.adv_send_shred(from, to, b);
        }
        // hostile inputs on all five interfaces, interleaved with the normal traffic
        if let Some((from, to, classes)) = &cfg.hostile {
            if now >= *from && now < *to && (now.as_millis() / 10) % 12 == 0 {
                let correct = cl.correct();
                if !correct.is_empty() {
                    let fin = { let mut f = 0; for v in &correct { f = f.max(cl.finalized_slot(*v).await); } f };
                    let recent: Vec<Arc<Vec<u8>>> = { let l = cl.log.lock().unwrap(); l.shred_bytes.iter().rev().take(64).cloned().collect() };
                    let hc = crate::hostile::HostileCtx { ep: &cfg.ep, byz: &cfg.byz, correct: &correct, seen_blocks: &byz.seen_blocks, cur_slot: max_slot_seen, finalized: fin, recent_shreds: &recent };
                    let class = classes[hrng.random_range(0..classes.len())];
                    for h in crate::hostile::generate(&mut hrng, &hc, class) {
                        *hostile_sent.entry(h.class.to_string()).or_insert(0) += 1;
                        let cur_w = max_slot_seen / 4;
                        let role = if window_leader(n, cur_w) == h.to { "leader-producing" } else if window_leader(n, cur_w + 1) == h.to { "next-leader-waiting" } else { "follower" };
                        hostile_roles.insert(format!("{}@{}", h.class, role));
                        cl.net.inject((h.ep, h.to), h.bytes);
                    }
                }
            }
        }
        // sample progress
        if (now.as_millis() / 10) % 10 == 0 {
            let mut m = BTreeMap::new();
            for v in cl.correct() {
                m.insert(v, cl.finalized_slot(v).await);
            }
            samples.push((now, m));
        }
    }
    // probe: does a correct node's repair responder still answer?
    let mut probe = None;
    if let (Some((&bz, ep_r)), Some(&target)) = (cl.byz_repair_eps.iter().next(), cl.correct().first()) {
        while ep_r.try_receive_raw().is_some() {}
        let known = byz.seen_blocks.iter().next_back().copied().unwrap_or((1, [1u8; 32]));
        let req = repair_request(bz as u64, &alpenglow::repair::RepairRequestType::LastSliceRoot(crate::poolsim::to_bid(&known)));
        cl.net.inject((Ep::RepairResp, target), ser(&req));
        tokio::time::sleep(Duration::from_millis(600)).await;
        probe = Some(ep_r.try_receive_raw().and_then(|b| de_repair_resp(&b)).is_some());
    }
    // collect
    let correct = cl.correct();
    let mut fin_logs = BTreeMap::new();
    let mut held = BTreeMap::new();
    let all_nodes: Vec<usize> = cl.nodes.keys().copied().collect();
    for &v in &all_nodes {
        // crashed nodes were correct until they stopped: what they finalized counts for agreement
        fin_logs.insert(v, cl.fin_log(v).await);
        held.insert(v, cl.held_certs(v).await);
    }
    let mut waiting_at_end = BTreeMap::new();
    for &v in &all_nodes {
        let snap = cl.nodes[&v].pool.read().await.verif_snapshot(usize::MAX);
        waiting_at_end.insert(v, snap.waiting_for_parent_cert.iter().map(|c| (crate::poolsim::from_bid(c), crate::poolsim::from_bid(c))).collect::<Vec<_>>());
    }
    let dead_tasks: Vec<usize> = cl.nodes.iter().filter(|(v, nh)| !cl.crashed.contains(v) && nh.task.is_finished()).map(|(v, _)| *v).collect();
    let shred_bytes = { std::mem::take(&mut cl.log.lock().unwrap().shred_bytes) };
    let mut tree = observe_blocks(&cfg.ep, &shred_bytes).await;
    for (b, p) in &byz_blocks {
        tree.insert(*b, *p);
    }
    cl.stop();
    let panics = take_panics();
    let mut l = cl.log.lock().unwrap();
    RunOut {
        fin_logs,
        samples,
        held,
        tree,
        panics,
        dead_tasks,
        correct,
        crashed: cl.crashed.clone(),
        votes_sent: std::mem::take(&mut l.votes_sent),
        votes_delivered: std::mem::take(&mut l.votes_delivered),
        certs_sent: std::mem::take(&mut l.certs_sent),
        certs_delivered: std::mem::take(&mut l.certs_delivered),
        first_shred: std::mem::take(&mut l.first_shred),
        byz_own_votes: byz.own_votes.clone(),
        byz_blocks,
        net_stats: cl.net.stats(),
        oversize: std::mem::take(&mut l.oversize),
        repair_requests: l.repair_requests,
        repair_responses: l.repair_responses,
        byz_votes_sent: byz.votes_sent,
        byz_certs_sent: byz.certs_sent,
        byz_modes,
        skip_cert_bytes: std::mem::take(&mut l.skip_cert_bytes),
        hostile_sent,
        hostile_roles,
        probe,
        laggard: lag_info,
        invalid_certs_sent: std::mem::take(&mut l.invalid_certs_sent),
        overflow_dropped: cl.net.overflow_dropped(),
        waiting_at_end,
        routes: std::mem::take(&mut l.routes),
    }
}

// ------------------------------------------------------------------------------------------
// Oracles shared by the cluster checks
// ------------------------------------------------------------------------------------------

pub struct Finding {
    pub prop: &'static str,
    pub sig: String,
    pub detail: String,
}

/// C01: agreement, single chain, direct finalization vs. skip certificates, per-node consistency.
pub fn safety_oracle(cfg: &RunCfg, out: &RunOut) -> (Vec<Finding>, Value) {
    let mut f = Vec::new();
    let mut per_slot: BTreeMap<u64, BTreeSet<H32>> = BTreeMap::new();
    let mut direct: BTreeSet<u64> = BTreeSet::new();
    for (v, log) in &out.fin_logs {
        let mut mine: BTreeMap<u64, H32> = BTreeMap::new();
        for e in log {
            match e {
                FinEv::Finalized(b) | FinEv::ImplicitlyFinalized(b) => {
                    if b.0 == 0 {
                        continue;
                    }
                    if let Some(prev) = mine.insert(b.0, b.1) {
                        if prev != b.1 {
                            f.push(Finding { prop: "C01", sig: "one node reported two different finalized blocks for a slot".into(), detail: format!("node {v} slot {}", b.0) });
                        }
                    }
                    per_slot.entry(b.0).or_default().insert(b.1);
                    if matches!(e, FinEv::Finalized(_)) {
                        direct.insert(b.0);
                    }
                }
                FinEv::ImplicitlySkipped(s) => {
                    if mine.contains_key(s) {
                        f.push(Finding { prop: "C01", sig: "one node reported a slot both finalized and skipped".into(), detail: format!("node {v} slot {s}") });
                    }
                }
            }
        }
        // skipped-by-finalization vs finalized elsewhere is covered by the chain check below
    }
    for (s, hs) in &per_slot {
        if hs.len() > 1 {
            f.push(Finding { prop: "C01", sig: "correct nodes finalized different blocks for the same slot".into(), detail: format!("slot {s}: {:?}", hs.iter().map(h32_short).collect::<Vec<_>>()) });
        }
    }
    // a slot implicitly skipped at one node but finalized at another
    for (v, log) in &out.fin_logs {
        for e in log {
            if let FinEv::ImplicitlySkipped(s) = e {
                if per_slot.contains_key(s) {
                    f.push(Finding { prop: "C01", sig: "a slot skipped through finalization at one node is finalized at another".into(), detail: format!("node {v} slot {s}") });
                }
            }
        }
    }
    // one chain: consecutive finalized blocks are ancestors of each other in the block tree
    let chain: Vec<Bid> = per_slot.iter().filter(|(_, h)| h.len() == 1).map(|(s, h)| (*s, *h.iter().next().unwrap())).collect();
    let mut unjudged = 0;
    for w in chain.windows(2) {
        let (lo, hi) = (w[0], w[1]);
        let mut cur = hi;
        let mut ok = None;
        for _ in 0..10_000 {
            if cur == lo {
                ok = Some(true);
                break;
            }
            if cur.0 <= lo.0 {
                ok = Some(false);
                break;
            }
            match out.tree.get(&cur) {
                Some(p) => cur = *p,
                None => break,
            }
        }
        match ok {
            Some(true) => {}
            Some(false) => f.push(Finding { prop: "C01", sig: "finalized blocks do not lie on one chain".into(), detail: format!("block in slot {} does not descend from the finalized block in slot {}", hi.0, lo.0) }),
            None => unjudged += 1,
        }
    }
    // directly finalized slots must not be skip-certified (certificates on the wire, held, or constructible)
    let total = cfg.ep.total();
    let mut skip_cert: BTreeSet<u64> = BTreeSet::new();
    // skip certificates seen on the wire count only if they validate (anybody can put bytes on the wire)
    for (slot, raws) in &out.skip_cert_bytes {
        if !direct.contains(slot) {
            continue;
        }
        for raw in raws {
            if let Some(alpenglow::consensus::ConsensusMessage::Cert(c)) = de_consensus(raw) {
                if alpenglow::consensus::ValidatedCert::try_new(c, &cfg.ep.info).is_ok() {
                    skip_cert.insert(*slot);
                    break;
                }
            }
        }
    }
    for cs in out.held.values() {
        for c in cs {
            if c.kind == CK::Skip {
                skip_cert.insert(c.slot);
            }
        }
    }
    let mut skippers: BTreeMap<u64, BTreeSet<usize>> = BTreeMap::new();
    for v in out.votes_sent.iter().map(|x| &x.2).chain(out.byz_own_votes.iter()) {
        if matches!(v.kind, VK::Skip | VK::SkipFallback) {
            skippers.entry(v.slot).or_default().insert(v.signer);
        }
    }
    for (s, set) in &skippers {
        let st: u128 = set.iter().filter_map(|i| cfg.ep.stakes.get(*i)).map(|x| *x as u128).sum();
        if st * 5 >= 3 * total {
            skip_cert.insert(*s);
        }
    }
    for s in direct.intersection(&skip_cert) {
        f.push(Finding { prop: "C01", sig: "a slot is both directly finalized and skip-certified".into(), detail: format!("slot {s}") });
    }
    // monotone finalized_slot per node
    let mut last: BTreeMap<usize, u64> = BTreeMap::new();
    for (_, m) in &out.samples {
        for (v, s) in m {
            if let Some(p) = last.insert(*v, *s) {
                if *s < p {
                    f.push(Finding { prop: "C01", sig: "finalized_slot() decreased at a node".into(), detail: format!("node {v}: {p} -> {s}") });
                }
            }
        }
    }
    for p in &out.panics {
        if p.msg.contains("safety violation") {
            f.push(Finding { prop: "C01", sig: format!("consensus safety assertion fired: {}", p.sig()), detail: format!("{} at {}:{}", p.msg, p.file, p.line) });
        }
    }
    let contested: usize = {
        let mut per: BTreeMap<u64, (BTreeSet<H32>, bool)> = BTreeMap::new();
        for (_, s, v) in &out.votes_sent {
            if cfg.byz.contains(s) {
                continue;
            }
            let e = per.entry(v.slot).or_default();
            match (v.kind, v.hash) {
                (VK::Notar, Some(h)) => {
                    e.0.insert(h);
                }
                (VK::Skip, _) => e.1 = true,
                _ => {}
            }
        }
        per.values().filter(|(h, sk)| h.len() > 1 || (*sk && !h.is_empty())).count()
    };
    let info = json!({"finalized_slots": per_slot.len(), "directly_finalized": direct.len(), "skip_certified_slots": skip_cert.len(), "contested_slots": contested, "chain_links_unjudged": unjudged, "tree_blocks": out.tree.len()});
    (f, info)
}

/// C05 (wire level): every correct node's own votes obey the voting rules.
pub fn voting_rules_oracle(cfg: &RunCfg, out: &RunOut) -> (Vec<Finding>, u64) {
    let mut f = Vec::new();
    let mut judged = 0u64;
    let total = cfg.ep.total();
    for &node in out.fin_logs.keys().chain(out.crashed.iter()) {
        if cfg.byz.contains(&node) {
            continue;
        }
        // own votes in emission order
        let mine: Vec<(Duration, &crate::model::MVote)> = out.votes_sent.iter().filter(|(_, s, v)| *s == node && v.signer == node).map(|(t, _, v)| (*t, v)).collect();
        let mut per_slot: BTreeMap<u64, Vec<(Duration, &crate::model::MVote)>> = BTreeMap::new();
        for (t, v) in &mine {
            // identical votes are re-broadcast by standstill recovery: only the first emission counts
            let e = per_slot.entry(v.slot).or_default();
            if !e.iter().any(|(_, x)| x.kind == v.kind && x.hash == v.hash) {
                e.push((*t, v));
            }
        }
        for (slot, vs) in &per_slot {
            judged += 1;
            let notars: Vec<&H32> = vs.iter().filter(|(_, v)| v.kind == VK::Notar).filter_map(|(_, v)| v.hash.as_ref()).collect();
            let skips = vs.iter().filter(|(_, v)| v.kind == VK::Skip).count();
            let initial = notars.len() + skips;
            if initial > 1 {
                f.push(Finding { prop: "C05", sig: "a correct node cast more than one initial vote in a slot".into(), detail: format!("node {node} slot {slot}: {} notar, {skips} skip", notars.len()) });
            }
            let pos = |k: VK| vs.iter().position(|(_, v)| v.kind == k);
            let first_initial = vs.iter().position(|(_, v)| matches!(v.kind, VK::Notar | VK::Skip));
            for (i, (_, v)) in vs.iter().enumerate() {
                if matches!(v.kind, VK::NotarFallback | VK::SkipFallback) && first_initial.is_none_or(|p| p > i) {
                    f.push(Finding { prop: "C05", sig: format!("a correct node cast a {} vote before its initial vote", v.kind.name()), detail: format!("node {node} slot {slot}") });
                }
                if v.kind == VK::NotarFallback && notars.first().is_some_and(|h| Some(**h) == v.hash) {
                    f.push(Finding { prop: "C05", sig: "a correct node cast notar-fallback for the block it notarized".into(), detail: format!("node {node} slot {slot}") });
                }
                if v.kind == VK::SkipFallback && notars.is_empty() {
                    f.push(Finding { prop: "C05", sig: "a correct node cast skip-fallback without having notarized".into(), detail: format!("node {node} slot {slot}") });
                }
            }
            if let Some(fp) = pos(VK::Final) {
                let bad_before = vs[..fp].iter().any(|(_, v)| matches!(v.kind, VK::Skip | VK::SkipFallback | VK::NotarFallback));
                let bad_after = vs[fp + 1..].iter().any(|(_, v)| matches!(v.kind, VK::Skip | VK::SkipFallback | VK::NotarFallback));
                if bad_before || bad_after {
                    f.push(Finding { prop: "C05", sig: format!("a correct node cast final together with a skip / fallback vote ({})", if bad_before { "before" } else { "after" }), detail: format!("node {node} slot {slot}") });
                }
                if notars.len() != 1 || vs[..fp].iter().all(|(_, v)| v.kind != VK::Notar) {
                    f.push(Finding { prop: "C05", sig: "a correct node cast final without having notarized a block first".into(), detail: format!("node {node} slot {slot}") });
                } else {
                    // justified: notar stake delivered to the node (or a notar certificate) before the final vote
                    let t_final = vs[fp].0;
                    let h = *notars[0];
                    let voters: BTreeSet<usize> = out.votes_delivered.iter().filter(|(t, to, v)| *to == node && *t <= t_final && v.slot == *slot && v.kind == VK::Notar && v.hash == Some(h)).map(|(_, _, v)| v.signer).collect();
                    let st: u128 = voters.iter().filter_map(|i| cfg.ep.stakes.get(*i)).map(|s| *s as u128).sum();
                    let cert = out.certs_delivered.iter().any(|(t, to, c)| *to == node && *t <= t_final && c.slot == *slot && c.kind == CK::Notar && c.hash == Some(h));
                    if st * 5 < 3 * total && !cert {
                        f.push(Finding { prop: "C05", sig: "a correct node cast final before a notarization certificate for its block could exist at it".into(), detail: format!("node {node} slot {slot}: notar stake delivered {st}/{total}") });
                    }
                }
            }
            // fallback votes justified by what was delivered (monotone supersets)
            for (i, (t, v)) in vs.iter().enumerate() {
                let _ = i;
                let delivered = |k: VK, h: Option<H32>| -> u128 {
                    let s: BTreeSet<usize> = out.votes_delivered.iter().filter(|(dt, to, dv)| *to == node && *dt <= *t && dv.slot == *slot && dv.kind == k && (h.is_none() || dv.hash == h)).map(|(_, _, dv)| dv.signer).collect();
                    // (hostile votes with out-of-range signers are on the wire too; they carry no stake)
                    s.iter().filter_map(|i| cfg.ep.stakes.get(*i)).map(|s| *s as u128).sum()
                };
                if v.kind == VK::NotarFallback {
                    let nb = delivered(VK::Notar, v.hash);
                    let sk = delivered(VK::Skip, None);
                    if !(nb * 5 >= 2 * total || (nb * 5 >= total && (nb + sk) * 5 >= 3 * total)) {
                        f.push(Finding { prop: "C05", sig: "a correct node cast notar-fallback although safe-to-notar could not hold at it".into(), detail: format!("node {node} slot {slot}: notar(b) {nb} skip {sk} of {total}") });
                    }
                }
                if v.kind == VK::SkipFallback {
                    let sk = delivered(VK::Skip, None);
                    let mut per: BTreeMap<H32, BTreeSet<usize>> = BTreeMap::new();
                    for (dt, to, dv) in &out.votes_delivered {
                        if *to == node && *dt <= *t && dv.slot == *slot && dv.kind == VK::Notar {
                            if let Some(h) = dv.hash {
                                per.entry(h).or_default().insert(dv.signer);
                            }
                        }
                    }
                    let stakes: Vec<u128> = per.values().map(|s| s.iter().filter_map(|i| cfg.ep.stakes.get(*i)).map(|x| *x as u128).sum()).collect();
                    let sum: u128 = stakes.iter().sum();
                    let max: u128 = stakes.iter().copied().max().unwrap_or(0);
                    // the superset delivered so far can only over-approximate skip + sum - max if max is attained by
                    // the same block; use the weakest sound bound: skip + sum - (min possible max) >= 40 %
                    let min_max = if stakes.is_empty() { 0 } else { max.min(sum) };
                    let _ = min_max;
                    if (sk + sum) * 5 < 2 * total {
                        f.push(Finding { prop: "C05", sig: "a correct node cast skip-fallback although safe-to-skip could not hold at it".into(), detail: format!("node {node} slot {slot}: skip {sk} notar total {sum} of {total}") });
                    }
                }
            }
        }
    }
    (f, judged)
}
