//! Whole-node executions: N real `Alpenglow` nodes (all tasks) in one process over VerifNet
//! with virtual time, plus an omniscient adversary that owns the Byzantine validators' keys.

use std::collections::{BTreeMap, BTreeSet};
use std::sync::{Arc, Mutex};
use std::time::Duration;

use alpenglow::all2all::TrivialAll2All;
use alpenglow::consensus::{Alpenglow, ConsensusMessage, SharedPool, ValidatedCert, VerifFinalization};
use alpenglow::disseminator::rotor::{IidQuorumSampler, StakeWeightedSampler};
use alpenglow::disseminator::{Rotor, TrivialDisseminator};
use alpenglow::repair::{RepairRequest, RepairResponse};
use alpenglow::shredder::Shred;
use alpenglow::{Disseminator, Transaction};
use tokio_util::sync::CancellationToken;

use crate::common::{Ep, Epoch};
use crate::model::{Bid, FinEv, H32, MVote};
use crate::net::{Datagram, NetHandle, VerifNet};
use crate::poolsim::{from_bid, mcert_of, mvote_of};
use crate::wire::*;

pub type CNet = VerifNet<ConsensusMessage, ConsensusMessage>;
pub type SNet = VerifNet<Shred, Shred>;
pub type TNet = VerifNet<Transaction, Transaction>;

#[derive(Clone, Copy, Debug, PartialEq, Eq)]
pub enum DissKind {
    Rotor,
    Trivial,
}

pub struct NodeHandle {
    pub id: usize,
    pub pool: SharedPool,
    pub cancel: CancellationToken,
    pub task: tokio::task::JoinHandle<anyhow_like::Res>,
}

pub mod anyhow_like {
    pub type Res = Result<(), String>;
}

/// Everything observed on the wire, decoded.
#[derive(Default)]
pub struct WireLog {
    /// votes sent, by sender validator: (time, vote)
    pub votes_sent: Vec<(Duration, usize, MVote)>,
    /// consensus datagrams delivered: (time, to, message summary)
    pub votes_delivered: Vec<(Duration, usize, MVote)>,
    pub certs_sent: Vec<(Duration, usize, crate::model::MCert)>,
    pub certs_delivered: Vec<(Duration, usize, crate::model::MCert)>,
    /// first time a shred of (slot) was sent by its leader
    pub first_shred: BTreeMap<u64, Duration>,
    pub shreds_sent: u64,
    pub max_datagram: usize,
    pub oversize: Vec<(String, usize)>,
    pub repair_requests: u64,
    pub repair_responses: u64,
    /// raw shred bytes sent by anyone (deduplicated), for the observer blockstore
    pub shred_bytes: Vec<Arc<Vec<u8>>>,
    shred_seen: BTreeSet<u64>,
    /// raw skip certificates seen (sent or delivered), by slot: validated lazily by the safety oracle
    pub skip_cert_bytes: BTreeMap<u64, Vec<Arc<Vec<u8>>>>,
    /// per shred (slot, slice, index): who sent it to whom and where it was delivered (only when enabled)
    /// certificates broadcast by a node of this cluster that fail validation (checked once per sender and key)
    pub invalid_certs_sent: Vec<(usize, crate::model::MCert)>,
    cert_checked: BTreeSet<(usize, u64, u8, Option<H32>)>,
    pub track_routes: bool,
    pub routes: BTreeMap<(u64, u64, u64), ShredRoute>,
}

#[derive(Default, Clone, Debug)]
pub struct ShredRoute {
    pub sent: Vec<(usize, usize)>,
    pub delivered: Vec<usize>,
}

pub struct Cluster {
    pub ep: Epoch,
    pub net: NetHandle,
    pub nodes: BTreeMap<usize, NodeHandle>,
    pub byz: BTreeSet<usize>,
    pub crashed: BTreeSet<usize>,
    pub log: Arc<Mutex<WireLog>>,
    pub diss: DissKind,
    /// repair-requester endpoints of the Byzantine validators (to read answers to probes)
    pub byz_repair_eps: BTreeMap<usize, VerifNet<RepairRequest, RepairResponse>>,
}

fn slot_leader(n: usize, slot: u64) -> usize {
    ((slot / 4) % n as u64) as usize
}

impl Cluster {
    /// Builds the cluster; validators in `byz` are not run as nodes (the adversary speaks for them).
    pub fn new(ep: Epoch, byz: BTreeSet<usize>, diss: DissKind) -> Self {
        let net = NetHandle::new();
        let log: Arc<Mutex<WireLog>> = Default::default();
        let n = ep.n();
        {
            let l = log.clone();
            let l2 = log.clone();
            let byz_set = byz.clone();
            let info = ep.info.clone();
            let mut c = net.0.lock().unwrap();
            c.on_send = Some(Box::new(move |d: &Datagram| {
                let mut w = l.lock().unwrap();
                w.max_datagram = w.max_datagram.max(d.bytes.len());
                if d.bytes.len() > alpenglow::network::MTU_BYTES && d.from.1 != usize::MAX {
                    w.oversize.push((format!("{:?} from {} to {}", d.to.0, d.from.1, d.to.1), d.bytes.len()));
                }
                match d.to.0 {
                    Ep::All2All => {
                        // record each broadcast once (the copy addressed to validator 0, or to self)
                        if d.to.1 == d.from.1 {
                            match de_consensus(&d.bytes) {
                                Some(ConsensusMessage::Vote(v)) => w.votes_sent.push((d.t, d.from.1, mvote_of(&v))),
                                Some(ConsensusMessage::Cert(c)) => {
                                    let m = mcert_of(&c);
                                    if m.kind == CK::Skip {
                                        let e = w.skip_cert_bytes.entry(m.slot).or_default();
                                        if e.len() < 4 {
                                            e.push(d.bytes.clone());
                                        }
                                    }
                                    // what a correct node broadcasts must validate at every receiver
                                    if !byz_set.contains(&d.from.1) && w.cert_checked.insert((d.from.1, m.slot, m.kind as u8, m.hash)) && ValidatedCert::try_new(c.clone(), &info).is_err() {
                                        w.invalid_certs_sent.push((d.from.1, m.clone()));
                                    }
                                    w.certs_sent.push((d.t, d.from.1, m))
                                }
                                None => {}
                            }
                        }
                    }
                    Ep::Diss => {
                        w.shreds_sent += 1;
                        if let Some(p) = ShredParts::parse(&d.bytes) {
                            if d.from.1 == slot_leader(n, p.slot) {
                                w.first_shred.entry(p.slot).or_insert(d.t);
                            }
                            if w.track_routes {
                                w.routes.entry((p.slot, p.slice_index, p.shred_index)).or_default().sent.push((d.from.1, d.to.1));
                            }
                            let key = crate::common::fnv(&d.bytes);
                            if w.shred_seen.insert(key) {
                                w.shred_bytes.push(d.bytes.clone());
                            }
                        }
                    }
                    Ep::RepairResp => w.repair_requests += 1,
                    Ep::RepairReq => w.repair_responses += 1,
                    Ep::Tx => {}
                }
            }));
            c.on_deliver = Some(Box::new(move |d: &Datagram| {
                if d.to.0 == Ep::Diss {
                    let mut w = l2.lock().unwrap();
                    if w.track_routes {
                        if let Some(p) = ShredParts::parse(&d.bytes) {
                            w.routes.entry((p.slot, p.slice_index, p.shred_index)).or_default().delivered.push(d.to.1);
                        }
                    }
                }
                if d.to.0 == Ep::All2All {
                    let mut w = l2.lock().unwrap();
                    match de_consensus(&d.bytes) {
                        Some(ConsensusMessage::Vote(v)) => w.votes_delivered.push((d.t, d.to.1, mvote_of(&v))),
                        Some(ConsensusMessage::Cert(c)) => {
                            let m = mcert_of(&c);
                            if m.kind == CK::Skip {
                                let e = w.skip_cert_bytes.entry(m.slot).or_default();
                                if e.len() < 8 && !e.iter().any(|b| **b == *d.bytes) {
                                    e.push(d.bytes.clone());
                                }
                            }
                            w.certs_delivered.push((d.t, d.to.1, m))
                        }
                        None => {}
                    }
                }
            }));
        }
        let mut nodes = BTreeMap::new();
        let mut byz_repair_eps = BTreeMap::new();
        for v in 0..n {
            if byz.contains(&v) {
                // endpoints exist so that traffic addressed to them is accepted and dropped
                let _: CNet = net.endpoint(Ep::All2All, v);
                byz_repair_eps.insert(v, net.endpoint::<RepairRequest, RepairResponse>(Ep::RepairReq, v));
                continue;
            }
            let a2a = TrivialAll2All::new(ep.validators().to_vec(), net.endpoint::<ConsensusMessage, ConsensusMessage>(Ep::All2All, v));
            let rq: VerifNet<RepairRequest, RepairResponse> = net.endpoint(Ep::RepairReq, v);
            let rp: VerifNet<RepairResponse, RepairRequest> = net.endpoint(Ep::RepairResp, v);
            let tx: TNet = net.endpoint(Ep::Tx, v);
            let dnet: SNet = net.endpoint(Ep::Diss, v);
            let own = ep.own(v);
            let (pool, cancel, task) = match diss {
                DissKind::Rotor => {
                    let d: Rotor<SNet, IidQuorumSampler<StakeWeightedSampler>> = Rotor::new(dnet, own.clone());
                    spawn_node(ep.sks[v].clone(), ep.vsks[v].clone(), a2a, d, rq, rp, own, tx)
                }
                DissKind::Trivial => {
                    let d = TrivialDisseminator::new(ep.validators().to_vec(), dnet);
                    spawn_node(ep.sks[v].clone(), ep.vsks[v].clone(), a2a, d, rq, rp, own, tx)
                }
            };
            nodes.insert(v, NodeHandle { id: v, pool, cancel, task });
        }
        Self { ep, net, nodes, byz, crashed: BTreeSet::new(), log, diss, byz_repair_eps }
    }

    pub fn crash(&mut self, v: usize) {
        if let Some(n) = self.nodes.get(&v) {
            n.cancel.cancel();
        }
        self.net.kill(v);
        self.crashed.insert(v);
    }

    pub fn correct(&self) -> Vec<usize> {
        self.nodes.keys().copied().filter(|v| !self.crashed.contains(v)).collect()
    }

    pub async fn finalized_slot(&self, v: usize) -> u64 {
        self.nodes[&v].pool.read().await.finalized_slot().inner()
    }

    /// Ordered finalization log of node `v` (hook).
    pub async fn fin_log(&self, v: usize) -> Vec<FinEv> {
        let s = self.nodes[&v].pool.read().await.verif_snapshot(0);
        s.log
            .iter()
            .map(|e| match e {
                VerifFinalization::Finalized(b) => FinEv::Finalized(from_bid(b)),
                VerifFinalization::ImplicitlyFinalized(b) => FinEv::ImplicitlyFinalized(from_bid(b)),
                VerifFinalization::ImplicitlySkipped(s) => FinEv::ImplicitlySkipped(s.inner()),
            })
            .collect()
    }

    pub async fn held_certs(&self, v: usize) -> Vec<crate::model::MCert> {
        self.nodes[&v].pool.read().await.verif_snapshot(usize::MAX).certs.iter().map(mcert_of).collect()
    }

    pub fn stop(&self) {
        for n in self.nodes.values() {
            n.cancel.cancel();
            n.task.abort();
        }
    }

    /// Broadcasts a consensus message in the name of (Byzantine) validator `from` to the given targets.
    pub fn adv_send_consensus(&self, from: usize, targets: &[usize], msg: &ConsensusMessage, through_scheduler: bool) {
        let b = ser(msg);
        for &t in targets {
            if through_scheduler {
                self.net.send_raw((Ep::All2All, from), (Ep::All2All, t), b.clone());
            } else {
                self.net.inject((Ep::All2All, t), b.clone());
            }
        }
    }

    pub fn adv_send_shred(&self, from: usize, target: usize, bytes: Vec<u8>) {
        self.net.send_raw((Ep::Diss, from), (Ep::Diss, target), bytes);
    }
}

#[allow(clippy::too_many_arguments)]
fn spawn_node<D: Disseminator + Send + Sync + 'static>(
    sk: alpenglow::crypto::signature::SecretKey,
    vsk: alpenglow::crypto::aggsig::SecretKey,
    a2a: TrivialAll2All<CNet>,
    d: D,
    rq: VerifNet<RepairRequest, RepairResponse>,
    rp: VerifNet<RepairResponse, RepairRequest>,
    own: Arc<alpenglow::consensus::ValidatorEpochInfo>,
    tx: TNet,
) -> (SharedPool, CancellationToken, tokio::task::JoinHandle<anyhow_like::Res>) {
    let node = Alpenglow::new(sk, vsk, a2a, d, rq, rp, own, tx);
    let pool = node.get_pool();
    let cancel = node.get_cancel_token();
    let task = tokio::spawn(async move { node.run().await.map_err(|e| format!("{e:?}")) });
    (pool, cancel, task)
}

/// Observer: reconstructs the block tree (id -> parent) from the shreds seen on the wire.
pub async fn observe_blocks(ep: &Epoch, shreds: &[Arc<Vec<u8>>]) -> BTreeMap<Bid, Bid> {
    use alpenglow::consensus::{Blockstore, BlockstoreEvent, BlockstoreImpl};
    use alpenglow::shredder::ValidatedShred;
    let mut out = BTreeMap::new();
    // one blockstore per slice-commitment version would be needed for equivocating leaders; the
    // observer keeps one store per (slot, first commitment seen) and a second one for conflicts
    let (tx, mut rx) = tokio::sync::mpsc::channel(1 << 16);
    let mut stores: Vec<BlockstoreImpl> = vec![BlockstoreImpl::new(tx.clone()), BlockstoreImpl::new(tx.clone()), BlockstoreImpl::new(tx)];
    let n = ep.n();
    for b in shreds {
        let Some(sh) = de_shred(b) else { continue };
        let p = ShredParts::of(&sh);
        let pk = ep.validators()[slot_leader(n, p.slot)].pubkey;
        let Ok(v) = ValidatedShred::try_new(sh, None, &pk) else { continue };
        for st in stores.iter_mut() {
            let cached = st.cached_commitment(alpenglow::types::Slot::new(p.slot), slice_index(p.slice_index as usize));
            if cached.is_none() || cached == Some(v.commitment()) {
                let _ = st.add_shred_from_dissemination(v.clone()).await;
                break;
            }
        }
        while let Ok(e) = rx.try_recv() {
            if let BlockstoreEvent::Block { slot, block_info } = e {
                out.insert((slot.inner(), hash32(block_info.verif_hash())), from_bid(block_info.verif_parent()));
            }
        }
    }
    out
}

pub fn h32_short(h: &H32) -> String {
    crate::common::hex(&h[..4])
}
