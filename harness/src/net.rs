//! VerifNet: byte-level in-memory implementation of `alpenglow::network::Network` for all
//! endpoint types, with a pluggable delivery policy (the adversarial scheduler) and a
//! recorder. Messages are serialised with wincode on send and decoded with the node's
//! own `network::deserialize` on receive (undecodable datagrams are skipped, like the
//! real networks do).

use std::collections::HashMap;
use std::marker::PhantomData;
use std::net::SocketAddr;
use std::sync::{Arc, Mutex};
use std::time::Duration;

use alpenglow::network::{Network, NetworkMessageConfig};
use tokio::sync::mpsc;
use wincode::config::DefaultConfig;
use wincode::{SchemaRead, SchemaWrite};

use crate::common::{Ep, addr_decode};

/// A datagram as seen by the scheduler / recorder.
#[derive(Clone, Debug)]
pub struct Datagram {
    pub t: Duration,
    pub from: (Ep, usize),
    pub to: (Ep, usize),
    pub bytes: Arc<Vec<u8>>,
}

/// Delivery policy: returns the delays after which copies of the datagram are delivered
/// (empty = dropped).
pub type Policy = Box<dyn FnMut(&Datagram) -> Vec<Duration> + Send>;

pub struct Core {
    inboxes: HashMap<(Ep, usize), mpsc::UnboundedSender<Arc<Vec<u8>>>>,
    pub policy: Policy,
    /// Recorder hook, called for every send (before the policy).
    pub on_send: Option<Box<dyn FnMut(&Datagram) + Send>>,
    /// Recorder hook, called for every delivery into an inbox.
    pub on_deliver: Option<Box<dyn FnMut(&Datagram) + Send>>,
    pub start: tokio::time::Instant,
    pub sent: u64,
    pub delivered: u64,
    pub dropped: u64,
    pub max_len: usize,
    /// Endpoints whose traffic is black-holed (crashed nodes).
    pub dead: std::collections::HashSet<usize>,
    /// Upper bound on datagrams per run (a zero-latency network turns any amplification loop into an
    /// unbounded storm in zero virtual time); beyond it everything is dropped and `capped` is set.
    pub max_datagrams: Option<u64>,
    pub capped: bool,
    /// Datagrams scheduled for later delivery and not yet delivered. Like a real network's buffers the bound
    /// is finite: beyond `max_in_flight` new datagrams are dropped (a request storm would otherwise grow the
    /// harness without bound in very little virtual time).
    pub in_flight: u64,
    pub max_in_flight: u64,
    pub overflow_dropped: u64,
}

#[derive(Clone)]
pub struct NetHandle(pub Arc<Mutex<Core>>);

impl NetHandle {
    pub fn new() -> Self {
        Self(Arc::new(Mutex::new(Core {
            inboxes: HashMap::new(),
            policy: Box::new(|_| vec![Duration::ZERO]),
            on_send: None,
            on_deliver: None,
            start: tokio::time::Instant::now(),
            sent: 0,
            delivered: 0,
            dropped: 0,
            max_len: 0,
            dead: Default::default(),
            max_datagrams: None,
            capped: false,
            in_flight: 0,
            max_in_flight: 400_000,
            overflow_dropped: 0,
        })))
    }

    pub fn now(&self) -> Duration {
        let c = self.0.lock().unwrap();
        tokio::time::Instant::now().duration_since(c.start)
    }

    pub fn set_policy(&self, p: Policy) {
        self.0.lock().unwrap().policy = p;
    }

    /// Creates an endpoint of the given kind for validator `v`.
    pub fn endpoint<S, R>(&self, ep: Ep, v: usize) -> VerifNet<S, R> {
        let (tx, rx) = mpsc::unbounded_channel();
        self.0.lock().unwrap().inboxes.insert((ep, v), tx);
        VerifNet { me: (ep, v), core: self.clone(), rx: tokio::sync::Mutex::new(rx), _p: PhantomData }
    }

    /// Sends raw bytes from an arbitrary (possibly forged) origin through the scheduler.
    pub fn send_raw(&self, from: (Ep, usize), to: (Ep, usize), bytes: Vec<u8>) {
        let d = Datagram { t: self.now(), from, to, bytes: Arc::new(bytes) };
        self.dispatch(d);
    }

    /// Injects raw bytes into an inbox immediately, bypassing policy (the adversary's own
    /// links are never delayed by itself).
    pub fn inject(&self, to: (Ep, usize), bytes: Vec<u8>) {
        let mut c = self.0.lock().unwrap();
        let d = Datagram { t: tokio::time::Instant::now().duration_since(c.start), from: (Ep::Tx, usize::MAX), to, bytes: Arc::new(bytes) };
        if c.dead.contains(&to.1) || d.bytes.len() > alpenglow::network::MTU_BYTES {
            c.dropped += 1;
            return;
        }
        if let Some(h) = c.on_deliver.as_mut() {
            h(&d);
        }
        c.delivered += 1;
        if let Some(tx) = c.inboxes.get(&to) {
            let _ = tx.send(d.bytes.clone());
        }
    }

    fn dispatch(&self, d: Datagram) {
        let delays;
        {
            let mut c = self.0.lock().unwrap();
            c.sent += 1;
            if c.max_datagrams.is_some_and(|m| c.sent > m) {
                c.capped = true;
                c.dropped += 1;
                return;
            }
            c.max_len = c.max_len.max(d.bytes.len());
            if let Some(h) = c.on_send.as_mut() {
                h(&d);
            }
            if c.dead.contains(&d.from.1) || c.dead.contains(&d.to.1) {
                c.dropped += 1;
                return;
            }
            if c.in_flight > c.max_in_flight {
                c.overflow_dropped += 1;
                c.dropped += 1;
                return;
            }
            delays = (c.policy)(&d);
            if delays.is_empty() {
                c.dropped += 1;
                return;
            }
            c.in_flight += delays.iter().filter(|x| !x.is_zero()).count() as u64;
        }
        for delay in delays {
            let me = self.clone();
            let d = d.clone();
            if delay.is_zero() {
                me.deliver(d);
            } else {
                tokio::spawn(async move {
                    tokio::time::sleep(delay).await;
                    {
                        let mut c = me.0.lock().unwrap();
                        c.in_flight = c.in_flight.saturating_sub(1);
                    }
                    me.deliver(d);
                });
            }
        }
    }

    fn deliver(&self, mut d: Datagram) {
        let mut c = self.0.lock().unwrap();
        // the real networks receive into MTU-sized buffers: a longer datagram arrives truncated
        // and fails to decode, i.e. it is lost
        if c.dead.contains(&d.to.1) || d.bytes.len() > alpenglow::network::MTU_BYTES {
            c.dropped += 1;
            return;
        }
        d.t = tokio::time::Instant::now().duration_since(c.start);
        if let Some(h) = c.on_deliver.as_mut() {
            h(&d);
        }
        c.delivered += 1;
        if let Some(tx) = c.inboxes.get(&d.to) {
            let _ = tx.send(d.bytes.clone());
        }
    }

    pub fn kill(&self, v: usize) {
        self.0.lock().unwrap().dead.insert(v);
    }

    pub fn overflow_dropped(&self) -> u64 {
        self.0.lock().unwrap().overflow_dropped
    }

    pub fn stats(&self) -> (u64, u64, u64, usize) {
        let c = self.0.lock().unwrap();
        (c.sent, c.delivered, c.dropped, c.max_len)
    }
}

impl Default for NetHandle {
    fn default() -> Self {
        Self::new()
    }
}

pub struct VerifNet<S, R> {
    pub me: (Ep, usize),
    core: NetHandle,
    rx: tokio::sync::Mutex<mpsc::UnboundedReceiver<Arc<Vec<u8>>>>,
    _p: PhantomData<fn(S) -> R>,
}

impl<S, R> VerifNet<S, R> {
    /// Receives the next raw datagram (harness personas use this to see undecoded bytes).
    pub async fn receive_raw(&self) -> Option<Arc<Vec<u8>>> {
        self.rx.lock().await.recv().await
    }
    pub fn try_receive_raw(&self) -> Option<Arc<Vec<u8>>> {
        self.rx.try_lock().ok()?.try_recv().ok()
    }
    pub fn handle(&self) -> &NetHandle {
        &self.core
    }
}

impl<S, R> Network for VerifNet<S, R>
where
    S: SchemaWrite<DefaultConfig, Src = S> + Send + Sync,
    R: for<'de> SchemaRead<'de, NetworkMessageConfig, Dst = R> + Send + Sync,
{
    type Send = S;
    type Recv = R;

    async fn send(&self, msg: &S, addr: SocketAddr) -> std::io::Result<()> {
        let bytes = wincode::serialize(msg).expect("serialize");
        if let Some(to) = addr_decode(addr) {
            self.core.dispatch(Datagram { t: self.core.now(), from: self.me, to, bytes: Arc::new(bytes) });
        }
        Ok(())
    }

    async fn send_to_many(&self, msg: &S, addrs: impl IntoIterator<Item = SocketAddr> + Send) -> std::io::Result<()> {
        let bytes = Arc::new(wincode::serialize(msg).expect("serialize"));
        let now = self.core.now();
        for a in addrs {
            if let Some(to) = addr_decode(a) {
                self.core.dispatch(Datagram { t: now, from: self.me, to, bytes: bytes.clone() });
            }
        }
        Ok(())
    }

    async fn receive(&self) -> std::io::Result<R> {
        loop {
            let Some(buf) = self.rx.lock().await.recv().await else {
                // inbox closed: never resolves (a dead network), mirroring a socket that stays silent
                std::future::pending::<()>().await;
                unreachable!()
            };
            if let Ok(m) = alpenglow::network::deserialize::<R>(&buf) {
                return Ok(m);
            }
        }
    }
}
