//! Wire-level knowledge (the attacker's view): byte layouts of votes, certificates,
//! shreds and repair messages, used to build and to mutate messages without any
//! accessor into the crate. `selftest()` checks this knowledge against the crate's
//! own encoders so that a format change makes the checks inconclusive instead of wrong.

use alpenglow::consensus::{Cert, ConsensusMessage, Vote};
use alpenglow::crypto::aggsig::{AggregateSignature, IndividualSignature};
use alpenglow::crypto::merkle::BlockHash;
use alpenglow::repair::{RepairRequest, RepairRequestType, RepairResponse};
use alpenglow::shredder::Shred;
use alpenglow::types::SliceIndex;
use alpenglow::ValidatorIndex;
use alpenglow::types::Slot;

use crate::common::Epoch;

#[derive(Clone, Copy, Debug, PartialEq, Eq, PartialOrd, Ord, Hash)]
pub enum VK {
    Notar = 0,
    NotarFallback = 1,
    Skip = 2,
    SkipFallback = 3,
    Final = 4,
}

pub const ALL_VK: [VK; 5] = [VK::Notar, VK::NotarFallback, VK::Skip, VK::SkipFallback, VK::Final];

impl VK {
    pub fn has_hash(self) -> bool {
        matches!(self, VK::Notar | VK::NotarFallback)
    }
    pub fn name(self) -> &'static str {
        match self {
            VK::Notar => "notar",
            VK::NotarFallback => "notar-fallback",
            VK::Skip => "skip",
            VK::SkipFallback => "skip-fallback",
            VK::Final => "final",
        }
    }
    pub fn from_tag(t: u32) -> Option<Self> {
        ALL_VK.get(t as usize).copied()
    }
}

#[derive(Clone, Copy, Debug, PartialEq, Eq, PartialOrd, Ord, Hash)]
pub enum CK {
    Notar = 0,
    NotarFallback = 1,
    Skip = 2,
    FastFinal = 3,
    Final = 4,
}

pub const ALL_CK: [CK; 5] = [CK::Notar, CK::NotarFallback, CK::Skip, CK::FastFinal, CK::Final];

impl CK {
    pub fn has_hash(self) -> bool {
        matches!(self, CK::Notar | CK::NotarFallback | CK::FastFinal)
    }
    pub fn mixed(self) -> bool {
        matches!(self, CK::NotarFallback | CK::Skip)
    }
    pub fn name(self) -> &'static str {
        match self {
            CK::Notar => "notar",
            CK::NotarFallback => "notar-fallback",
            CK::Skip => "skip",
            CK::FastFinal => "fast-final",
            CK::Final => "final",
        }
    }
    /// Vote kinds of the (first, second) half.
    pub fn halves(self) -> (VK, Option<VK>) {
        match self {
            CK::Notar | CK::FastFinal => (VK::Notar, None),
            CK::NotarFallback => (VK::Notar, Some(VK::NotarFallback)),
            CK::Skip => (VK::Skip, Some(VK::SkipFallback)),
            CK::Final => (VK::Final, None),
        }
    }
    /// Threshold numerator over 5.
    pub fn threshold_fifths(self) -> u128 {
        if self == CK::FastFinal { 4 } else { 3 }
    }
    pub fn of(c: &Cert) -> Self {
        match c {
            Cert::Notar(_) => CK::Notar,
            Cert::NotarFallback(_) => CK::NotarFallback,
            Cert::Skip(_) => CK::Skip,
            Cert::FastFinal(_) => CK::FastFinal,
            Cert::Final(_) => CK::Final,
        }
    }
}

pub fn vk_of(v: &Vote) -> VK {
    match v {
        Vote::Notar(_) => VK::Notar,
        Vote::NotarFallback(_) => VK::NotarFallback,
        Vote::Skip(_) => VK::Skip,
        Vote::SkipFallback(_) => VK::SkipFallback,
        Vote::Final(_) => VK::Final,
    }
}

pub fn ser<T: wincode::SchemaWrite<wincode::config::DefaultConfig, Src = T>>(v: &T) -> Vec<u8> {
    wincode::serialize(v).expect("serialize")
}

pub fn de_consensus(b: &[u8]) -> Option<ConsensusMessage> {
    alpenglow::network::deserialize::<ConsensusMessage>(b).ok()
}
pub fn de_vote(b: &[u8]) -> Option<Vote> {
    alpenglow::network::deserialize::<Vote>(b).ok()
}
pub fn de_cert(b: &[u8]) -> Option<Cert> {
    alpenglow::network::deserialize::<Cert>(b).ok()
}
pub fn de_shred(b: &[u8]) -> Option<Shred> {
    alpenglow::network::deserialize::<Shred>(b).ok()
}
pub fn de_repair_req(b: &[u8]) -> Option<RepairRequest> {
    alpenglow::network::deserialize::<RepairRequest>(b).ok()
}
pub fn de_repair_resp(b: &[u8]) -> Option<RepairResponse> {
    alpenglow::network::deserialize::<RepairResponse>(b).ok()
}

pub fn hash32(h: &BlockHash) -> [u8; 32] {
    use alpenglow::crypto::merkle::MerkleRoot;
    let mut o = [0u8; 32];
    o.copy_from_slice(h.as_hash().as_ref());
    o
}

/// Bytes a validator signs for a vote of the given kind: `VotePayload` enum encoding.
pub fn vote_payload(kind: VK, slot: u64, hash: Option<&[u8; 32]>) -> Vec<u8> {
    let mut b = Vec::with_capacity(44);
    b.extend_from_slice(&(kind as u32).to_le_bytes());
    b.extend_from_slice(&slot.to_le_bytes());
    if kind.has_hash() {
        b.extend_from_slice(hash.expect("hash needed"));
    }
    b
}

pub const SIG_LEN: usize = 96;

/// Vote wire layout: tag u32 | slot u64 | [hash 32] | sig 96 | signer u64
#[derive(Clone, Debug, PartialEq, Eq)]
pub struct VoteParts {
    pub kind: VK,
    pub slot: u64,
    pub hash: Option<[u8; 32]>,
    pub sig: [u8; SIG_LEN],
    pub signer: u64,
}

impl VoteParts {
    pub fn encode_tagged(&self, tag: u32, with_hash: bool) -> Vec<u8> {
        let mut b = Vec::new();
        b.extend_from_slice(&tag.to_le_bytes());
        b.extend_from_slice(&self.slot.to_le_bytes());
        if with_hash {
            b.extend_from_slice(&self.hash.unwrap_or([0; 32]));
        }
        b.extend_from_slice(&self.sig);
        b.extend_from_slice(&self.signer.to_le_bytes());
        b
    }
    pub fn encode(&self) -> Vec<u8> {
        self.encode_tagged(self.kind as u32, self.kind.has_hash())
    }
    pub fn parse(b: &[u8]) -> Option<Self> {
        if b.len() < 4 {
            return None;
        }
        let kind = VK::from_tag(u32::from_le_bytes(b[0..4].try_into().ok()?))?;
        let want = 4 + 8 + if kind.has_hash() { 32 } else { 0 } + SIG_LEN + 8;
        if b.len() != want {
            return None;
        }
        let slot = u64::from_le_bytes(b[4..12].try_into().ok()?);
        let mut o = 12;
        let hash = if kind.has_hash() {
            let mut h = [0u8; 32];
            h.copy_from_slice(&b[o..o + 32]);
            o += 32;
            Some(h)
        } else {
            None
        };
        let mut sig = [0u8; SIG_LEN];
        sig.copy_from_slice(&b[o..o + SIG_LEN]);
        o += SIG_LEN;
        let signer = u64::from_le_bytes(b[o..o + 8].try_into().ok()?);
        Some(Self { kind, slot, hash, sig, signer })
    }
    pub fn of(v: &Vote) -> Self {
        Self::parse(&ser(v)).expect("vote layout")
    }
}

/// Signs a vote at wire level and returns the decoded `Vote`.
pub fn sign_vote(ep: &Epoch, signer: usize, kind: VK, slot: u64, hash: Option<&BlockHash>) -> Vote {
    let s = Slot::new(slot);
    let sk = &ep.vsks[signer];
    let id = ValidatorIndex::new(signer as u64);
    match kind {
        VK::Notar => Vote::new_notar(s, hash.expect("hash").clone(), sk, id),
        VK::NotarFallback => Vote::new_notar_fallback(s, hash.expect("hash").clone(), sk, id),
        VK::Skip => Vote::new_skip(s, sk, id),
        VK::SkipFallback => Vote::new_skip_fallback(s, sk, id),
        VK::Final => Vote::new_final(s, sk, id),
    }
}

pub fn individual_sig(ep: &Epoch, signer: usize, kind: VK, slot: u64, hash: Option<&[u8; 32]>) -> IndividualSignature {
    ep.vsks[signer].sign_bytes(&vote_payload(kind, slot, hash))
}

/// Aggregate-signature wire layout: sig 96 | num_bits u64 | words_len u64 | words (u64 each)
#[derive(Clone, Debug, PartialEq, Eq)]
pub struct AggParts {
    pub sig: [u8; SIG_LEN],
    pub num_bits: u64,
    pub words: Vec<u64>,
}

impl AggParts {
    pub fn encode(&self) -> Vec<u8> {
        self.encode_with_len(self.words.len() as u64)
    }
    pub fn encode_with_len(&self, declared_words: u64) -> Vec<u8> {
        let mut b = Vec::new();
        b.extend_from_slice(&self.sig);
        b.extend_from_slice(&self.num_bits.to_le_bytes());
        b.extend_from_slice(&declared_words.to_le_bytes());
        for w in &self.words {
            b.extend_from_slice(&w.to_le_bytes());
        }
        b
    }
    pub fn parse(b: &[u8]) -> Option<(Self, usize)> {
        if b.len() < SIG_LEN + 16 {
            return None;
        }
        let mut sig = [0u8; SIG_LEN];
        sig.copy_from_slice(&b[..SIG_LEN]);
        let num_bits = u64::from_le_bytes(b[SIG_LEN..SIG_LEN + 8].try_into().ok()?);
        let nw = u64::from_le_bytes(b[SIG_LEN + 8..SIG_LEN + 16].try_into().ok()?) as usize;
        let mut o = SIG_LEN + 16;
        if nw > 4096 || b.len() < o + 8 * nw {
            return None;
        }
        let mut words = Vec::new();
        for _ in 0..nw {
            words.push(u64::from_le_bytes(b[o..o + 8].try_into().ok()?));
            o += 8;
        }
        Some((Self { sig, num_bits, words }, o))
    }
    pub fn signers(&self) -> Vec<usize> {
        let mut v = Vec::new();
        for i in 0..self.num_bits as usize {
            if self.words.get(i / 64).is_some_and(|w| (w >> (i % 64)) & 1 == 1) {
                v.push(i);
            }
        }
        v
    }
    pub fn set_bit(&mut self, i: usize, val: bool) {
        while self.words.len() <= i / 64 {
            self.words.push(0);
        }
        if val {
            self.words[i / 64] |= 1 << (i % 64);
        } else {
            self.words[i / 64] &= !(1 << (i % 64));
        }
    }
    /// Builds from individual signatures (the honest aggregation).
    pub fn aggregate(sigs: &[(usize, IndividualSignature)], n: usize) -> Self {
        let agg = AggregateSignature::new(sigs.iter().map(|(_, s)| s), sigs.iter().map(|(i, _)| ValidatorIndex::new(*i as u64)), n);
        let b = ser(&agg);
        Self::parse(&b).expect("agg layout").0
    }
}

/// Certificate wire layout:
///   tag u32 | slot u64 | [hash 32] | agg            | stake u64     (notar, fast-final, final)
///   tag u32 | slot u64 | [hash 32] | opt agg | opt agg | stake u64  (notar-fallback, skip)
/// where `opt` is a u8 presence tag.
#[derive(Clone, Debug, PartialEq, Eq)]
pub struct CertParts {
    pub kind: CK,
    pub slot: u64,
    pub hash: Option<[u8; 32]>,
    pub a: Option<AggParts>,
    pub b: Option<AggParts>,
    pub stake: u64,
}

impl CertParts {
    pub fn encode(&self) -> Vec<u8> {
        let mut o = Vec::new();
        o.extend_from_slice(&(self.kind as u32).to_le_bytes());
        o.extend_from_slice(&self.slot.to_le_bytes());
        if self.kind.has_hash() {
            o.extend_from_slice(&self.hash.unwrap_or([0; 32]));
        }
        if self.kind.mixed() {
            for h in [&self.a, &self.b] {
                match h {
                    None => o.push(0),
                    Some(a) => {
                        o.push(1);
                        o.extend_from_slice(&a.encode());
                    }
                }
            }
        } else {
            o.extend_from_slice(&self.a.as_ref().expect("single-half cert needs agg").encode());
        }
        o.extend_from_slice(&self.stake.to_le_bytes());
        o
    }
    pub fn parse(b: &[u8]) -> Option<Self> {
        let tag = u32::from_le_bytes(b.get(0..4)?.try_into().ok()?);
        let kind = *ALL_CK.get(tag as usize)?;
        let slot = u64::from_le_bytes(b.get(4..12)?.try_into().ok()?);
        let mut o = 12;
        let hash = if kind.has_hash() {
            let mut h = [0u8; 32];
            h.copy_from_slice(b.get(o..o + 32)?);
            o += 32;
            Some(h)
        } else {
            None
        };
        let (a, bb);
        if kind.mixed() {
            let mut hs = Vec::new();
            for _ in 0..2 {
                let t = *b.get(o)?;
                o += 1;
                if t == 1 {
                    let (p, used) = AggParts::parse(&b[o..])?;
                    o += used;
                    hs.push(Some(p));
                } else if t == 0 {
                    hs.push(None);
                } else {
                    return None;
                }
            }
            bb = hs.pop().unwrap();
            a = hs.pop().unwrap();
        } else {
            let (p, used) = AggParts::parse(&b[o..])?;
            o += used;
            a = Some(p);
            bb = None;
        }
        let stake = u64::from_le_bytes(b.get(o..o + 8)?.try_into().ok()?);
        if o + 8 != b.len() {
            return None;
        }
        Some(Self { kind, slot, hash, a, b: bb, stake })
    }
    pub fn of(c: &Cert) -> Self {
        Self::parse(&ser(c)).expect("cert layout")
    }
    pub fn decode(&self) -> Option<Cert> {
        de_cert(&self.encode())
    }
    /// Union of signer indices of both halves.
    pub fn signers(&self) -> Vec<usize> {
        let mut s: Vec<usize> = self.a.iter().chain(self.b.iter()).flat_map(|a| a.signers()).collect();
        s.sort_unstable();
        s.dedup();
        s
    }
}

/// Builds a certificate honestly from chosen signer subsets (first / second half).
pub fn build_cert(ep: &Epoch, kind: CK, slot: u64, hash: Option<&[u8; 32]>, first: &[usize], second: &[usize]) -> CertParts {
    let (k1, k2) = kind.halves();
    let n = ep.n();
    let mk = |k: VK, set: &[usize]| -> Option<AggParts> {
        if set.is_empty() {
            return None;
        }
        let sigs: Vec<_> = set.iter().map(|i| (*i, individual_sig(ep, *i, k, slot, hash))).collect();
        Some(AggParts::aggregate(&sigs, n))
    };
    let a = mk(k1, first);
    let b = k2.and_then(|k| mk(k, second));
    let mut all: Vec<usize> = first.iter().chain(second.iter()).copied().collect();
    all.sort_unstable();
    all.dedup();
    let stake: u128 = ep.stake_of(all);
    CertParts { kind, slot, hash: if kind.has_hash() { hash.copied() } else { None }, a, b, stake: stake.min(u64::MAX as u128) as u64 }
}

// ---------------------------------------------------------------------------
// Shreds
// ---------------------------------------------------------------------------

/// Shred wire layout:
///   tag u32 (0 data / 1 coding) | slot u64 | slice_index u64 | is_last u8 | shred_index u64 |
///   data_len u64 | data | sig 64 | proof_len u64 | proof (32 each)
#[derive(Clone, Debug, PartialEq, Eq)]
pub struct ShredParts {
    pub tag: u32,
    pub slot: u64,
    pub slice_index: u64,
    pub is_last: u8,
    pub shred_index: u64,
    pub data: Vec<u8>,
    pub sig: [u8; 64],
    pub proof: Vec<[u8; 32]>,
}

impl ShredParts {
    pub fn encode(&self) -> Vec<u8> {
        let mut b = Vec::with_capacity(self.data.len() + 400);
        b.extend_from_slice(&self.tag.to_le_bytes());
        b.extend_from_slice(&self.slot.to_le_bytes());
        b.extend_from_slice(&self.slice_index.to_le_bytes());
        b.push(self.is_last);
        b.extend_from_slice(&self.shred_index.to_le_bytes());
        b.extend_from_slice(&(self.data.len() as u64).to_le_bytes());
        b.extend_from_slice(&self.data);
        b.extend_from_slice(&self.sig);
        b.extend_from_slice(&(self.proof.len() as u64).to_le_bytes());
        for p in &self.proof {
            b.extend_from_slice(p);
        }
        b
    }
    pub fn parse(b: &[u8]) -> Option<Self> {
        let tag = u32::from_le_bytes(b.get(0..4)?.try_into().ok()?);
        let slot = u64::from_le_bytes(b.get(4..12)?.try_into().ok()?);
        let slice_index = u64::from_le_bytes(b.get(12..20)?.try_into().ok()?);
        let is_last = *b.get(20)?;
        let shred_index = u64::from_le_bytes(b.get(21..29)?.try_into().ok()?);
        let dl = u64::from_le_bytes(b.get(29..37)?.try_into().ok()?) as usize;
        let mut o: usize = 37;
        let data = b.get(o..o.checked_add(dl)?)?.to_vec();
        o += dl;
        let mut sig = [0u8; 64];
        sig.copy_from_slice(b.get(o..o + 64)?);
        o += 64;
        let pl = u64::from_le_bytes(b.get(o..o + 8)?.try_into().ok()?) as usize;
        o += 8;
        if pl > 4096 {
            return None;
        }
        let mut proof = Vec::new();
        for _ in 0..pl {
            let mut h = [0u8; 32];
            h.copy_from_slice(b.get(o..o + 32)?);
            proof.push(h);
            o += 32;
        }
        if o != b.len() {
            return None;
        }
        Some(Self { tag, slot, slice_index, is_last, shred_index, data, sig, proof })
    }
    pub fn of(s: &Shred) -> Self {
        Self::parse(&ser(s)).expect("shred layout")
    }
    pub fn decode(&self) -> Option<Shred> {
        de_shred(&self.encode())
    }
}

pub fn slice_index(i: usize) -> SliceIndex {
    wincode::deserialize::<SliceIndex>(&(i as u64).to_le_bytes()).expect("slice index in range")
}

// ---------------------------------------------------------------------------
// Repair
// ---------------------------------------------------------------------------

/// RepairRequest wire layout: sender u64 | RepairRequestType
pub fn repair_request(sender: u64, ty: &RepairRequestType) -> RepairRequest {
    let mut b = sender.to_le_bytes().to_vec();
    b.extend_from_slice(&ser(ty));
    de_repair_req(&b).expect("repair request layout")
}

pub fn repair_request_parts(r: &RepairRequest) -> (u64, RepairRequestType) {
    let b = ser(r);
    let sender = u64::from_le_bytes(b[0..8].try_into().unwrap());
    let ty = alpenglow::network::deserialize::<RepairRequestType>(&b[8..]).expect("repair request type layout");
    (sender, ty)
}

/// Checks the layout knowledge above against the crate's encoders. Returns an error
/// description on mismatch (callers treat that as inconclusive, not as a violation).
pub fn selftest(ep: &Epoch) -> Result<(), String> {
    let h = crate::common::bh(7);
    let hb = hash32(&h);
    for k in ALL_VK {
        let v = sign_vote(ep, 0, k, 5, Some(&h));
        let p = VoteParts::parse(&ser(&v)).ok_or("vote parse")?;
        if p.kind != k || p.slot != 5 || p.signer != 0 || (k.has_hash() && p.hash != Some(hb)) {
            return Err(format!("vote layout mismatch for {k:?}"));
        }
        if p.encode() != ser(&v) {
            return Err("vote re-encode mismatch".into());
        }
        let s = individual_sig(ep, 0, k, 5, Some(&hb));
        if ser(&s) != p.sig.to_vec() {
            return Err(format!("vote payload/signature mismatch for {k:?}"));
        }
    }
    let n = ep.n();
    let all: Vec<usize> = (0..n).collect();
    for ck in ALL_CK {
        let (f, s): (Vec<usize>, Vec<usize>) = if ck.mixed() && n >= 2 { (all[..n / 2].to_vec(), all[n / 2..].to_vec()) } else { (all.clone(), vec![]) };
        let parts = build_cert(ep, ck, 9, Some(&hb), &f, &s);
        let c = parts.decode().ok_or(format!("cert decode {ck:?}"))?;
        if CK::of(&c) != ck || c.slot() != Slot::new(9) {
            return Err(format!("cert kind/slot mismatch {ck:?}"));
        }
        if ser(&c) != parts.encode() {
            return Err(format!("cert re-encode mismatch {ck:?}"));
        }
        if alpenglow::consensus::ValidatedCert::try_new(c.clone(), &ep.info).is_err() {
            return Err(format!("honestly built cert {ck:?} does not validate"));
        }
        let sg: Vec<usize> = c.signers().map(|v| v.as_usize()).collect::<std::collections::BTreeSet<_>>().into_iter().collect();
        if sg != all {
            return Err(format!("cert signers mismatch {ck:?}"));
        }
        if CertParts::of(&c) != parts {
            return Err(format!("cert parts mismatch {ck:?}"));
        }
    }
    // shreds
    use alpenglow::shredder::{RegularShredder, Shredder};
    let slice = alpenglow::types::Slice {
        slot: Slot::new(3),
        slice_index: slice_index(2),
        is_last: true,
        parent: Some((Slot::new(1), h.clone())),
        data: vec![1, 2, 3, 4, 5],
    };
    let shreds = RegularShredder::default().shred(&slice, &ep.sks[0]).map_err(|e| format!("{e:?}"))?;
    for (i, s) in shreds.iter().enumerate() {
        let b = ser(s.as_shred());
        let p = ShredParts::parse(&b).ok_or("shred parse")?;
        if p.slot != 3 || p.slice_index != 2 || p.is_last != 1 || p.shred_index != i as u64 || p.tag != if i < 32 { 0 } else { 1 } {
            return Err("shred layout mismatch".into());
        }
        if p.encode() != b {
            return Err("shred re-encode mismatch".into());
        }
        if p.data.len() != s.as_shred().payload().index_in_slot().min(usize::MAX) * 0 + p.data.len() {
            return Err("unreachable".into());
        }
    }
    // repair
    let ty = RepairRequestType::SliceRoot((Slot::new(4), h.clone()), slice_index(1));
    let r = repair_request(3, &ty);
    let (s, t) = repair_request_parts(&r);
    if s != 3 || t != ty {
        return Err("repair request layout mismatch".into());
    }
    Ok(())
}


// ---------------------------------------------------------------------------
// Curve arithmetic for one alteration class of C09: a signature with a point of the cofactor subgroup added
// ---------------------------------------------------------------------------

/// Returns `sig + T`, where `T = [r]P` for a random curve point `P` (r = order of G1): `T` is on the curve
/// but outside the prime-order subgroup, and pairs trivially with everything. A verifier that skips the
/// subgroup check accepts the altered bytes. `None` if the input does not deserialize.
pub fn add_cofactor_point(sig: &[u8; SIG_LEN], seed: u64) -> Option<[u8; SIG_LEN]> {
    // group order r, little-endian
    const R_LE: [u8; 32] = [
        0x01, 0x00, 0x00, 0x00, 0xff, 0xff, 0xff, 0xff, 0xfe, 0x5b, 0xfe, 0xff, 0x02, 0xa4, 0xbd, 0x53, 0x05, 0xd8, 0xa1, 0x09, 0x08, 0xd8, 0x39, 0x33, 0x48, 0x7d, 0x9d, 0x29, 0x53, 0xa7, 0xed, 0x73,
    ];
    unsafe {
        let mut s_aff = blst::blst_p1_affine::default();
        if blst::blst_p1_deserialize(&mut s_aff, sig.as_ptr()) != blst::BLST_ERROR::BLST_SUCCESS {
            return None;
        }
        let mut ctr = seed;
        loop {
            // a compressed encoding with a pseudo-random x coordinate below the field modulus
            let mut c = [0u8; 48];
            for (i, b) in c.iter_mut().enumerate() {
                ctr = ctr.wrapping_mul(6364136223846793005).wrapping_add(1442695040888963407);
                *b = (ctr >> 33) as u8 ^ i as u8;
            }
            c[0] = 0x80 | (c[0] & 0x0f);
            let mut p_aff = blst::blst_p1_affine::default();
            if blst::blst_p1_uncompress(&mut p_aff, c.as_ptr()) != blst::BLST_ERROR::BLST_SUCCESS {
                continue;
            }
            let mut p = blst::blst_p1::default();
            blst::blst_p1_from_affine(&mut p, &p_aff);
            let mut t = blst::blst_p1::default();
            blst::blst_p1_mult(&mut t, &p, R_LE.as_ptr(), 255);
            if blst::blst_p1_is_inf(&t) {
                continue;
            }
            let mut sum = blst::blst_p1::default();
            blst::blst_p1_add_or_double_affine(&mut sum, &t, &s_aff);
            let mut out = [0u8; SIG_LEN];
            blst::blst_p1_serialize(out.as_mut_ptr(), &sum);
            if out == *sig {
                continue;
            }
            return Some(out);
        }
    }
}
