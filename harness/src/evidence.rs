//! Run context, evidence counters, violation recording, panic capture.

use std::collections::{BTreeMap, BTreeSet};
use std::panic::{AssertUnwindSafe, catch_unwind};
use std::sync::Mutex;

use serde_json::{Value, json};

use crate::common::{SRng, mk_rng};

#[derive(Clone, Copy, Debug, PartialEq, Eq)]
pub enum Tier {
    Quick,
    Thorough,
}

#[derive(Clone, Debug)]
pub struct Violation {
    /// Exact signature used for known-finding matching.
    pub signature: String,
    pub detail: String,
    pub witness: Value,
}

pub struct Ctx {
    pub prop: String,
    pub tier: Tier,
    pub seed: u64,
    pub shard: usize,
    pub nshards: usize,
    /// Scales workload sizes (sanitizer lanes use < 1.0).
    pub scale: f64,
    pub evaluations: u64,
    pub distinct: BTreeSet<String>,
    pub counters: BTreeMap<String, u64>,
    pub samples: Vec<Value>,
    pub violations: Vec<Violation>,
    pub notes: Vec<String>,
    max_samples: usize,
}

impl Ctx {
    pub fn new(prop: &str, tier: Tier, seed: u64, shard: usize, nshards: usize, scale: f64) -> Self {
        Self {
            prop: prop.to_string(),
            tier,
            seed,
            shard,
            nshards,
            scale,
            evaluations: 0,
            distinct: BTreeSet::new(),
            counters: BTreeMap::new(),
            samples: Vec::new(),
            violations: Vec::new(),
            notes: Vec::new(),
            max_samples: 6,
        }
    }

    pub fn quick(&self) -> bool {
        self.tier == Tier::Quick
    }

    /// RNG private to this shard and a tag.
    pub fn rng(&self, tag: &str) -> SRng {
        mk_rng(self.seed.wrapping_mul(1_000_003).wrapping_add(self.shard as u64), &format!("{}:{}", self.prop, tag))
    }

    /// RNG shared by all shards (same configuration everywhere).
    pub fn rng_global(&self, tag: &str) -> SRng {
        mk_rng(self.seed, &format!("{}:g:{}", self.prop, tag))
    }

    /// Number of iterations for this shard given totals for quick / thorough.
    pub fn iters(&self, quick_total: u64, thorough_total: u64) -> u64 {
        let t = if self.quick() { quick_total } else { thorough_total };
        let t = ((t as f64) * self.scale).ceil() as u64;
        (t / self.nshards as u64).max(1)
    }

    /// True if item `i` of a globally enumerated list belongs to this shard.
    pub fn mine(&self, i: u64) -> bool {
        (i % self.nshards as u64) as usize == self.shard
    }

    pub fn eval(&mut self) {
        self.evaluations += 1;
    }

    pub fn count(&mut self, key: &str) {
        *self.counters.entry(key.to_string()).or_insert(0) += 1;
    }

    pub fn count_n(&mut self, key: &str, n: u64) {
        *self.counters.entry(key.to_string()).or_insert(0) += n;
    }

    pub fn distinct(&mut self, key: impl Into<String>) {
        self.distinct.insert(key.into());
    }

    pub fn sample(&mut self, v: Value) {
        if self.samples.len() < self.max_samples {
            self.samples.push(v);
        }
    }

    pub fn sample_cap(&self) -> bool {
        self.samples.len() < self.max_samples
    }

    pub fn violation(&mut self, signature: impl Into<String>, detail: impl Into<String>, witness: Value) {
        let signature = signature.into();
        // a clause owned by another property that fails during this property's workload is that
        // property's business (its own check runs the same workload with that clause in focus)
        if !signature.starts_with(&format!("{} ", self.prop)) && self.prop.starts_with('C') {
            self.count(&format!("other-property-clause-failed:{}", signature.split(' ').next().unwrap_or("")));
            let n = format!("[{}] {}", signature.split(' ').next().unwrap_or(""), signature);
            self.note(n);
            return;
        }
        // keep the first witness per signature, count the rest
        self.count(&format!("violation:{signature}"));
        if self.violations.iter().any(|v| v.signature == signature) {
            return;
        }
        if self.violations.len() < 200 {
            self.violations.push(Violation { signature, detail: detail.into(), witness });
        }
    }

    pub fn note(&mut self, s: impl Into<String>) {
        let s = s.into();
        if self.notes.len() < 50 && !self.notes.contains(&s) {
            self.notes.push(s);
        }
    }

    pub fn to_json(&self, wall_s: f64) -> Value {
        json!({
            "prop": self.prop,
            "tier": if self.quick() {"quick"} else {"thorough"},
            "seed": self.seed,
            "shard": self.shard,
            "nshards": self.nshards,
            "evaluations": self.evaluations,
            "distinct": self.distinct.iter().collect::<Vec<_>>(),
            "counters": self.counters,
            "samples": self.samples,
            "notes": self.notes,
            "wall_s": wall_s,
            "violations": self.violations.iter().map(|v| json!({
                "signature": v.signature, "detail": v.detail, "witness": v.witness
            })).collect::<Vec<_>>(),
        })
    }
}

// ---------------------------------------------------------------------------
// Panic capture
// ---------------------------------------------------------------------------

#[derive(Clone, Debug)]
pub struct PanicRec {
    pub msg: String,
    pub file: String,
    pub line: u32,
    pub thread: String,
}

static PANICS: Mutex<Vec<PanicRec>> = Mutex::new(Vec::new());

/// Installs a process-wide panic hook that records every panic (message + location)
/// instead of printing it.
pub fn install_panic_hook() {
    std::panic::set_hook(Box::new(|info| {
        let msg = if let Some(s) = info.payload().downcast_ref::<&str>() {
            (*s).to_string()
        } else if let Some(s) = info.payload().downcast_ref::<String>() {
            s.clone()
        } else {
            "<non-string panic>".to_string()
        };
        let (file, line) = info.location().map(|l| (l.file().to_string(), l.line())).unwrap_or_default();
        let thread = std::thread::current().name().unwrap_or("?").to_string();
        if let Ok(mut p) = PANICS.lock() {
            if p.len() < 10_000 {
                p.push(PanicRec { msg, file, line, thread });
            }
        }
    }));
}

pub fn take_panics() -> Vec<PanicRec> {
    PANICS.lock().map(|mut p| std::mem::take(&mut *p)).unwrap_or_default()
}

pub fn panics_len() -> usize {
    PANICS.lock().map(|p| p.len()).unwrap_or(0)
}

/// Where the crate under test lives (scratch copies used for seeded-change evaluation set AGV_REPO_PREFIX).
pub fn repo_prefix() -> String {
    std::env::var("AGV_REPO_PREFIX").unwrap_or_else(|_| "/repo/".to_string())
}

impl PanicRec {
    /// True if the panic originates in the crate under test.
    pub fn in_repo(&self) -> bool {
        self.file.starts_with(&repo_prefix()) || self.file.starts_with("src/")
    }
    /// Stable signature: file (relative) + first words of the message, digits stripped.
    pub fn sig(&self) -> String {
        let f = self.file.trim_start_matches(repo_prefix().as_str());
        let m: String = self.msg.chars().take(60).map(|c| if c.is_ascii_digit() { '#' } else { c }).collect();
        // collapse runs of '#'
        let mut out = String::new();
        let mut last_hash = false;
        for c in m.chars() {
            if c == '#' {
                if !last_hash {
                    out.push('#');
                }
                last_hash = true;
            } else {
                out.push(c);
                last_hash = false;
            }
        }
        format!("panic {f} \"{}\"", out.trim())
    }
}

/// Runs `f`, converting a panic into `Err(PanicRec)`.
pub fn guarded<T>(f: impl FnOnce() -> T) -> Result<T, PanicRec> {
    let before = panics_len();
    match catch_unwind(AssertUnwindSafe(f)) {
        Ok(v) => Ok(v),
        Err(_) => {
            let mut all = PANICS.lock().unwrap();
            let rec = if all.len() > before {
                all.remove(before)
            } else {
                PanicRec { msg: "<unrecorded panic>".into(), file: String::new(), line: 0, thread: String::new() }
            };
            Err(rec)
        }
    }
}

/// Async variant of [`guarded`].
pub async fn guarded_async<T>(f: impl std::future::Future<Output = T>) -> Result<T, PanicRec> {
    use futures::FutureExt;
    let before = panics_len();
    match AssertUnwindSafe(f).catch_unwind().await {
        Ok(v) => Ok(v),
        Err(_) => {
            let mut all = PANICS.lock().unwrap();
            let rec = if all.len() > before {
                all.remove(before)
            } else {
                PanicRec { msg: "<unrecorded panic>".into(), file: String::new(), line: 0, thread: String::new() }
            };
            Err(rec)
        }
    }
}
