//! Hostile-input generators for all five node interfaces (C10).

use std::collections::BTreeSet;

use alpenglow::Transaction;
use alpenglow::consensus::ConsensusMessage;
use alpenglow::repair::{RepairRequestType, RepairResponse};
use alpenglow::shredder::ShredIndex;
use alpenglow::types::Slot;
use rand::prelude::*;

use crate::common::{Ep, Epoch, SRng};
use crate::model::Bid;
use crate::poolsim::to_bid;
use crate::props::c13::{SliceSpec, build_block, tx_data};
use crate::props::c15::{RefTree, to_hash};
use crate::wire::*;

/// One hostile datagram: interface, target validator, bytes, class label.
pub struct Hostile {
    pub ep: Ep,
    pub to: usize,
    pub bytes: Vec<u8>,
    pub class: &'static str,
}

pub const CLASSES: &[&str] = &[
    "consensus:garbage", "consensus:truncated", "consensus:trailing", "consensus:signer-out-of-range", "consensus:slot-bounds", "consensus:far-future-byz-votes", "consensus:cert-bad-bitmask", "consensus:cert-sub-threshold", "consensus:forged-vote-naming-the-receiver",
    "shred:parent-same-or-later-slot", "shred:first-slice-no-parent", "shred:parent-switched-twice", "shred:parent-switched-to-itself", "shred:switched-parent-same-or-later-slot", "shred:forged-copy-of-a-genuine-shred", "shred:undecodable-tx-data", "shred:zero-size-shards", "shred:odd-size-shards",
    "shred:oversize-shards", "shred:mismatched-shard-sizes", "shred:tag-contradicts-index", "shred:contradictory-last-flags", "shred:slice-beyond-last", "shred:many-slices", "shred:far-future-slot", "shred:garbage",
    "repair-request:unknown-sender", "repair-request:unknown-block", "repair-request:every-index", "repair-request:garbage",
    "repair-response:unsolicited", "repair-response:garbage", "repair-response:wrong-variant",
    "tx:empty", "tx:max", "tx:oversize", "tx:flood", "tx:garbage", "tx:fill-boundary",
];

/// Builds 64 consistent, validly signed shreds of one slice whose leaves are arbitrary byte strings.
fn signed_slice_with_leaves(ep: &Epoch, leader: usize, slot: u64, slice: u64, is_last: bool, leaves: &[Vec<u8>], flip_tags: bool) -> Vec<Vec<u8>> {
    let rt = RefTree::new(leaves);
    let root = rt.root();
    let mut msg = Vec::with_capacity(49);
    msg.extend_from_slice(&slot.to_le_bytes());
    msg.extend_from_slice(&slice.to_le_bytes());
    msg.push(is_last as u8);
    msg.extend_from_slice(&root);
    let sig = ser(&ep.sks[leader].sign_bytes(&msg));
    let mut s64 = [0u8; 64];
    s64.copy_from_slice(&sig);
    leaves
        .iter()
        .enumerate()
        .map(|(i, d)| {
            let tag = if (i < 32) != flip_tags { 0 } else { 1 };
            ShredParts { tag, slot, slice_index: slice, is_last: is_last as u8, shred_index: i as u64, data: d.clone(), sig: s64, proof: rt.proof(i) }.encode()
        })
        .collect()
}

pub struct HostileCtx<'a> {
    pub ep: &'a Epoch,
    pub byz: &'a BTreeSet<usize>,
    pub correct: &'a [usize],
    pub seen_blocks: &'a BTreeSet<Bid>,
    pub cur_slot: u64,
    pub finalized: u64,
    /// recent genuine shreds seen on the wire (raw)
    pub recent_shreds: &'a [std::sync::Arc<Vec<u8>>],
}

fn byz_window_slot(n: usize, byz: usize, around: u64, rng: &mut SRng, far: bool) -> u64 {
    // a slot of a window led by `byz`, near `around` (or far in the future)
    let w0 = around / 4;
    let mut w = w0 + if far { rng.random_range(100..8000) } else { rng.random_range(0..(2 * n as u64)) };
    while (w % n as u64) as usize != byz {
        w += 1;
    }
    w * 4 + rng.random_range(0..4)
}

pub fn generate(rng: &mut SRng, h: &HostileCtx, class: &'static str) -> Vec<Hostile> {
    let n = h.ep.n();
    let mut out = Vec::new();
    let target = *h.correct.choose(rng).unwrap();
    let some_byz = h.byz.iter().next().copied();
    let mut push = |ep: Ep, to: usize, bytes: Vec<u8>| out.push(Hostile { ep, to, bytes, class });
    let blk_hash = h.seen_blocks.iter().next_back().map(|b| b.1).unwrap_or([1u8; 32]);
    match class {
        "consensus:garbage" => {
            for _ in 0..4 {
                let len = rng.random_range(0..400);
                push(Ep::All2All, target, (0..len).map(|_| rng.random()).collect());
            }
        }
        "consensus:truncated" | "consensus:trailing" => {
            let signer = some_byz.unwrap_or(0);
            let v = sign_vote(h.ep, signer, *ALL_VK.choose(rng).unwrap(), h.cur_slot, Some(&crate::poolsim::to_bh(&blk_hash)));
            let mut b = ser(&ConsensusMessage::Vote(v));
            if class.ends_with("truncated") {
                b.truncate(rng.random_range(0..b.len()));
            } else {
                b.extend(std::iter::repeat_n(0u8, rng.random_range(1..20)));
            }
            push(Ep::All2All, target, b);
        }
        "consensus:signer-out-of-range" => {
            let signer = some_byz.unwrap_or(0);
            for k in ALL_VK {
                let v = sign_vote(h.ep, signer, k, h.cur_slot, Some(&crate::poolsim::to_bh(&blk_hash)));
                let mut p = VoteParts::of(&v);
                p.signer = *[n as u64, n as u64 + 1, 1 << 32, u64::MAX].choose(rng).unwrap();
                let mut b = 0u32.to_le_bytes().to_vec();
                b.extend(p.encode());
                push(Ep::All2All, target, b);
            }
        }
        "consensus:forged-vote-naming-the-receiver" => {
            // votes that name the receiving node itself as signer but carry somebody else's signature (a node
            // must not trust a vote because it claims to be its own)
            if let Some(bz) = some_byz.or(h.correct.iter().copied().find(|c| *c != target)) {
                for to in h.correct.iter().copied() {
                    for s in [h.cur_slot, h.cur_slot + 1, h.cur_slot + 2, h.cur_slot + 4] {
                        for k in [VK::Skip, VK::Notar, VK::Final, VK::SkipFallback] {
                            let v = sign_vote(h.ep, bz, k, s, Some(&crate::poolsim::to_bh(&blk_hash)));
                            let mut p = VoteParts::of(&v);
                            p.signer = to as u64;
                            let mut b = 0u32.to_le_bytes().to_vec();
                            b.extend(p.encode());
                            push(Ep::All2All, to, b);
                        }
                    }
                }
            }
        }
        "consensus:slot-bounds" | "consensus:far-future-byz-votes" => {
            if let Some(bz) = some_byz {
                let slots: Vec<u64> = if class.ends_with("bounds") {
                    vec![0, h.finalized, h.finalized + 36_000 - 1, h.finalized + 36_000, h.finalized + 36_001, u64::MAX, u64::MAX - 1, h.finalized.saturating_sub(1)]
                } else {
                    (0..6).map(|_| h.cur_slot + rng.random_range(50..30_000)).collect()
                };
                for s in slots {
                    for k in ALL_VK {
                        let v = sign_vote(h.ep, bz, k, s, Some(&crate::poolsim::to_bh(&blk_hash)));
                        push(Ep::All2All, target, ser(&ConsensusMessage::Vote(v.clone())));
                    }
                }
            }
        }
        "consensus:cert-bad-bitmask" | "consensus:cert-sub-threshold" => {
            let ck = *ALL_CK.choose(rng).unwrap();
            let signers: Vec<usize> = if class.ends_with("sub-threshold") { h.byz.iter().copied().collect() } else { (0..n).collect() };
            if !signers.is_empty() {
                let mut parts = build_cert(h.ep, ck, h.cur_slot, Some(&blk_hash), &signers, &[]);
                if class.ends_with("bad-bitmask") {
                    if let Some(a) = parts.a.as_mut() {
                        a.num_bits = *[0u64, n as u64 - 1, n as u64 + 1, 2048, 2049, u64::MAX].choose(rng).unwrap();
                        while (a.words.len() as u64) * 64 < a.num_bits.min(4096) {
                            a.words.push(u64::MAX);
                        }
                    }
                }
                parts.stake = u64::MAX;
                let mut b = 1u32.to_le_bytes().to_vec();
                b.extend(parts.encode());
                push(Ep::All2All, target, b);
            }
        }
        "shred:forged-copy-of-a-genuine-shred" => {
            // copies of genuine shreds of the slots in flight (any leader, correct ones included) with the payload,
            // the proof or the signature altered: unauthenticated junk that names a real slot and slice
            for raw in h.recent_shreds.iter().rev().take(40) {
                let Some(mut p) = ShredParts::parse(raw) else { continue };
                match rng.random_range(0..3) {
                    0 if !p.data.is_empty() => {
                        let l = p.data.len();
                        p.data[rng.random_range(0..l)] ^= 0x55;
                    }
                    1 if !p.proof.is_empty() => {
                        let l = p.proof.len();
                        p.proof[rng.random_range(0..l)][3] ^= 0x55;
                    }
                    _ => {
                        p.sig[rng.random_range(0..64)] ^= 0x55;
                        if !p.data.is_empty() {
                            p.data[0] ^= 1;
                        }
                    }
                }
                for to in h.correct.iter().copied() {
                    push(Ep::Diss, to, p.encode());
                }
            }
        }
        c if c.starts_with("shred:") => {
            let Some(bz) = some_byz else { return out };
            let far = c == "shred:far-future-slot";
            let slot = byz_window_slot(n, bz, h.cur_slot.max(1), rng, far);
            let parent: Bid = h.seen_blocks.iter().filter(|b| b.0 < slot).next_back().copied().unwrap_or((0, [0; 32]));
            let ok_slice = |p: Option<Bid>, last: bool| SliceSpec { parent: p, is_last: last, data: tx_data(&[vec![3u8; 10]]), txs: vec![vec![3u8; 10]] };
            let mut datagrams: Vec<Vec<u8>> = Vec::new();
            match c {
                "shred:parent-same-or-later-slot" => {
                    let p = (slot + rng.random_range(0..3), blk_hash);
                    let b = build_block(&h.ep.sks[bz], slot, &[ok_slice(Some(p), true)]);
                    datagrams.extend(b.bytes.into_iter().flatten());
                }
                "shred:first-slice-no-parent" => {
                    let b = build_block(&h.ep.sks[bz], slot, &[ok_slice(None, true)]);
                    datagrams.extend(b.bytes.into_iter().flatten());
                }
                "shred:parent-switched-twice" => {
                    let b = build_block(&h.ep.sks[bz], slot, &[ok_slice(Some(parent), false), ok_slice(Some((parent.0, [5; 32])), false), ok_slice(Some((parent.0, [6; 32])), true)]);
                    datagrams.extend(b.bytes.into_iter().flatten());
                }
                "shred:switched-parent-same-or-later-slot" => {
                    // valid first parent, then a single switch to a block of this very slot (or a later one)
                    let p2 = (slot + *[0u64, 0, 1, 5].choose(rng).unwrap(), blk_hash);
                    let b = build_block(&h.ep.sks[bz], slot, &[ok_slice(Some(parent), false), ok_slice(Some(p2), true)]);
                    datagrams.extend(b.bytes.into_iter().flatten());
                }
                "shred:parent-switched-to-itself" => {
                    let b = build_block(&h.ep.sks[bz], slot, &[ok_slice(Some(parent), false), ok_slice(Some(parent), true)]);
                    datagrams.extend(b.bytes.into_iter().flatten());
                }
                "shred:undecodable-tx-data" => {
                    let mut s = ok_slice(Some(parent), true);
                    s.data = vec![0xff; 11];
                    let b = build_block(&h.ep.sks[bz], slot, &[s]);
                    datagrams.extend(b.bytes.into_iter().flatten());
                }
                "shred:zero-size-shards" | "shred:odd-size-shards" | "shred:oversize-shards" | "shred:mismatched-shard-sizes" | "shred:tag-contradicts-index" => {
                    let leaves: Vec<Vec<u8>> = (0..64)
                        .map(|i| match c {
                            "shred:zero-size-shards" => vec![],
                            "shred:odd-size-shards" => vec![i as u8; 7],
                            "shred:oversize-shards" => vec![i as u8; 1200],
                            "shred:mismatched-shard-sizes" => vec![i as u8; 2 + 2 * (i % 5)],
                            _ => vec![i as u8; 8],
                        })
                        .collect();
                    datagrams.extend(signed_slice_with_leaves(h.ep, bz, slot, 0, true, &leaves, c == "shred:tag-contradicts-index"));
                }
                "shred:contradictory-last-flags" => {
                    let b = build_block(&h.ep.sks[bz], slot, &[ok_slice(Some(parent), true), ok_slice(None, true)]);
                    datagrams.extend(b.bytes.into_iter().flatten());
                }
                "shred:slice-beyond-last" => {
                    let b = build_block(&h.ep.sks[bz], slot, &[ok_slice(Some(parent), true), ok_slice(None, false), ok_slice(None, false)]);
                    let mut all: Vec<Vec<u8>> = b.bytes.into_iter().rev().flatten().collect();
                    all.truncate(150);
                    datagrams.extend(all);
                }
                "shred:many-slices" => {
                    // one shred of each of many slice indices, including the maximum
                    for s in (0..1024u64).step_by(rng.random_range(3..17)).chain([1023]) {
                        let leaves: Vec<Vec<u8>> = (0..64).map(|i| vec![i as u8; 4]).collect();
                        let v = signed_slice_with_leaves(h.ep, bz, slot, s, s == 1023, &leaves, false);
                        datagrams.push(v[rng.random_range(0..64)].clone());
                    }
                }
                "shred:far-future-slot" => {
                    let b = build_block(&h.ep.sks[bz], slot, &[ok_slice(Some(parent), true)]);
                    datagrams.extend(b.bytes.into_iter().flatten().take(40));
                }
                _ => {
                    for _ in 0..5 {
                        let len = rng.random_range(0..1400);
                        datagrams.push((0..len).map(|_| rng.random()).collect());
                    }
                }
            }
            // to one or to all correct nodes
            let targets: Vec<usize> = if rng.random_bool(0.5) { vec![target] } else { h.correct.to_vec() };
            for d in datagrams {
                for &t in &targets {
                    push(Ep::Diss, t, d.clone());
                }
            }
        }
        "repair-request:unknown-sender" | "repair-request:unknown-block" | "repair-request:every-index" | "repair-request:garbage" => {
            let known: Bid = h.seen_blocks.iter().next_back().copied().unwrap_or((1, [1; 32]));
            match class {
                "repair-request:garbage" => {
                    for _ in 0..4 {
                        let len = rng.random_range(0..120);
                        push(Ep::RepairResp, target, (0..len).map(|_| rng.random()).collect());
                    }
                }
                "repair-request:unknown-sender" => {
                    for s in [n as u64, u64::MAX, 1 << 33] {
                        push(Ep::RepairResp, target, ser(&repair_request(s, &RepairRequestType::LastSliceRoot(to_bid(&known)))));
                    }
                }
                "repair-request:unknown-block" => {
                    let sender = some_byz.unwrap_or(0) as u64;
                    let id = (Slot::new(rng.random_range(0..1_000_000)), crate::poolsim::to_bh(&[9u8; 32]));
                    push(Ep::RepairResp, target, ser(&repair_request(sender, &RepairRequestType::LastSliceRoot(id.clone()))));
                    push(Ep::RepairResp, target, ser(&repair_request(sender, &RepairRequestType::SliceRoot(id.clone(), slice_index(1023)))));
                    push(Ep::RepairResp, target, ser(&repair_request(sender, &RepairRequestType::Shred(id, slice_index(0), ShredIndex::new(63).unwrap()))));
                }
                _ => {
                    let sender = some_byz.unwrap_or(0) as u64;
                    let id = to_bid(&known);
                    for s in [0usize, 1, 2, 500, 1023] {
                        push(Ep::RepairResp, target, ser(&repair_request(sender, &RepairRequestType::SliceRoot(id.clone(), slice_index(s)))));
                        for i in [0usize, 31, 32, 63] {
                            push(Ep::RepairResp, target, ser(&repair_request(sender, &RepairRequestType::Shred(id.clone(), slice_index(s), ShredIndex::new(i).unwrap()))));
                        }
                    }
                }
            }
        }
        "repair-response:unsolicited" | "repair-response:garbage" | "repair-response:wrong-variant" => {
            let known: Bid = h.seen_blocks.iter().next_back().copied().unwrap_or((1, [1; 32]));
            let id = to_bid(&known);
            let root: alpenglow::crypto::merkle::SliceRoot = to_hash(&[4u8; 32]).into();
            let proof: alpenglow::crypto::merkle::DoubleMerkleProof = vec![to_hash(&[5u8; 32]); rng.random_range(0..34)].into();
            match class {
                "repair-response:garbage" => {
                    for _ in 0..4 {
                        let len = rng.random_range(0..1400);
                        push(Ep::RepairReq, target, (0..len).map(|_| rng.random()).collect());
                    }
                }
                "repair-response:unsolicited" => {
                    push(Ep::RepairReq, target, ser(&RepairResponse::LastSliceRoot(RepairRequestType::LastSliceRoot(id.clone()), slice_index(rng.random_range(0..1024)), root.clone(), proof.clone())));
                    push(Ep::RepairReq, target, ser(&RepairResponse::SliceRoot(RepairRequestType::SliceRoot(id.clone(), slice_index(3)), root, proof)));
                    push(Ep::RepairReq, target, ser(&RepairResponse::Nack(RepairRequestType::LastSliceRoot(id))));
                }
                _ => {
                    push(Ep::RepairReq, target, ser(&RepairResponse::SliceRoot(RepairRequestType::LastSliceRoot(id.clone()), root.clone(), proof.clone())));
                    push(Ep::RepairReq, target, ser(&RepairResponse::LastSliceRoot(RepairRequestType::Shred(id, slice_index(0), ShredIndex::new(0).unwrap()), slice_index(0), root, proof)));
                }
            }
        }
        "tx:empty" => push(Ep::Tx, target, ser(&Transaction(vec![]))),
        "tx:max" => {
            for _ in 0..10 {
                push(Ep::Tx, target, ser(&Transaction(vec![7u8; 512])));
            }
        }
        "tx:oversize" => {
            // larger than MAX_TRANSACTION_SIZE, still one datagram
            for len in [513usize, 600, 1000, 1400, 1492] {
                for _ in 0..6 {
                    push(Ep::Tx, target, ser(&Transaction(vec![8u8; len])));
                }
            }
        }
        "tx:flood" => {
            for _ in 0..200 {
                let len = rng.random_range(0..=512);
                push(Ep::Tx, target, ser(&Transaction(vec![9u8; len])));
            }
        }
        "tx:fill-boundary" => {
            // valid transactions sized so that a slice fills up to within a few bytes of its capacity: 61
            // maximal ones, one of a swept length, then maximal ones again (the room left before the last
            // admitted transaction lands on every value around MAX_TRANSACTION_SIZE + 8 over the batches);
            // every correct node gets its own batch, so whoever leads next starts its block with one
            for to in h.correct.iter().copied() {
                let odd = if rng.random_bool(0.8) { rng.random_range(440..=512) } else { rng.random_range(0..=512) };
                let at = rng.random_range(0..62);
                for i in 0..64 {
                    let len = if i == at { odd } else { 512 };
                    push(Ep::Tx, to, ser(&Transaction(vec![0x42u8; len])));
                }
            }
        }
        "tx:garbage" => {
            for _ in 0..4 {
                let len = rng.random_range(0..1600);
                push(Ep::Tx, target, (0..len).map(|_| rng.random()).collect());
            }
        }
        _ => {}
    }
    out
}
