//! World generator: vote / certificate / block histories that a < 20 % adversary could cause.
//!
//! A world is a main chain of blocks over L slots (with skipped slots between them), side
//! blocks, and the complete multiset of votes that exist: honest validators follow the
//! voting rules (one initial vote, final only for the block they notarized and only when a
//! notarization certificate is justified, fallback votes only when the safe-to condition can
//! hold, never final together with a skip or fallback vote), Byzantine validators (< 20 % of
//! the stake) sign anything. Finalizable slots are exactly main-chain slots, so every
//! certificate set derivable from a world is safe.

use std::collections::{BTreeMap, BTreeSet};

use rand::prelude::*;

use crate::common::{Epoch, SRng};
use crate::model::{Bid, GENESIS, H32, MVote};
use crate::wire::{CK, VK};

#[derive(Clone, Debug, PartialEq, Eq)]
pub enum SlotClass {
    Fast,
    Slow,
    NotarOnly,
    NfOnly,
    Skip,
    SideOpen,
    Empty,
    /// chain slot with two strong blocks: one gathers a notarization certificate (>= 60 % with the Byzantine
    /// validators voting for both), the other >= 40 % and hence a notar-fallback certificate; nobody can
    /// finalize the slot directly, the chain continues on either of them
    Rival,
}

#[derive(Clone, Debug)]
pub struct WBlock {
    pub id: Bid,
    pub parent: Bid,
    pub on_chain: bool,
}

pub struct World {
    pub own: usize,
    pub byz: BTreeSet<usize>,
    pub slots: u64,
    pub blocks: Vec<WBlock>,
    pub class: BTreeMap<u64, SlotClass>,
    pub votes: Vec<MVote>,
}

fn label_hash(rng: &mut SRng) -> H32 {
    let mut h = [0u8; 32];
    rng.fill_bytes(&mut h);
    h
}

impl World {
    pub fn stake_of(ep: &Epoch, set: impl IntoIterator<Item = usize>) -> u128 {
        set.into_iter().map(|i| ep.stakes[i] as u128).sum()
    }

    pub fn generate(rng: &mut SRng, ep: &Epoch, windows: u64, first_slot: u64) -> World {
        let n = ep.n();
        let total = ep.total();
        // Byzantine set: strictly less than 20 % of the stake
        let mut order: Vec<usize> = (0..n).collect();
        order.shuffle(rng);
        let mut byz = BTreeSet::new();
        let mut bs = 0u128;
        let want_byz = rng.random_bool(0.8);
        for &i in &order {
            let s = ep.stakes[i] as u128;
            if want_byz && (bs + s) * 5 < total && byz.len() + 1 < n {
                byz.insert(i);
                bs += s;
            }
        }
        let honest: Vec<usize> = (0..n).filter(|i| !byz.contains(i)).collect();
        let own = *honest.choose(rng).unwrap();
        let slots = windows * 4 - 1;
        let mut blocks: Vec<WBlock> = Vec::new();
        let mut class = BTreeMap::new();
        let mut votes: Vec<MVote> = Vec::new();
        let mut tip: Bid = GENESIS;
        let p_chain: f64 = *[0.5, 0.75, 0.9].choose(rng).unwrap();
        for slot in first_slot..first_slot + slots {
            let on_chain = rng.random_bool(p_chain);
            let mut slot_blocks: Vec<H32> = Vec::new();
            let main = if on_chain {
                let b = (slot, label_hash(rng));
                blocks.push(WBlock { id: b, parent: tip, on_chain: true });
                slot_blocks.push(b.1);
                Some(b)
            } else {
                None
            };
            // side blocks
            let nside = *[0usize, 0, 1, 1, 2].choose(rng).unwrap();
            for _ in 0..nside {
                let earlier: Vec<Bid> = blocks.iter().filter(|b| b.id.0 < slot).map(|b| b.id).chain([GENESIS]).collect();
                let parent = *earlier.choose(rng).unwrap();
                let b = (slot, label_hash(rng));
                blocks.push(WBlock { id: b, parent, on_chain: false });
                slot_blocks.push(b.1);
            }
            let cls = if main.is_some() {
                if nside > 0 && rng.random_bool(0.35) {
                    SlotClass::Rival
                } else {
                    [SlotClass::Fast, SlotClass::Fast, SlotClass::Slow, SlotClass::Slow, SlotClass::NotarOnly, SlotClass::NfOnly].choose(rng).unwrap().clone()
                }
            } else if nside > 0 {
                [SlotClass::Skip, SlotClass::SideOpen, SlotClass::SideOpen, SlotClass::Empty].choose(rng).unwrap().clone()
            } else {
                [SlotClass::Skip, SlotClass::Skip, SlotClass::Empty].choose(rng).unwrap().clone()
            };
            let cls = cls.clone();
            if cls == SlotClass::Rival {
                // an equivocating leader's two blocks extend the same parent
                if let Some(b) = blocks.iter_mut().find(|b| b.id.0 == slot && !b.on_chain) {
                    b.parent = tip;
                }
            }
            class.insert(slot, cls.clone());
            Self::slot_votes(rng, ep, &byz, slot, &cls, main.map(|b| b.1), &slot_blocks, &mut votes);
            if let Some(b) = main {
                tip = b;
            }
        }
        World { own, byz, slots, blocks, class, votes }
    }

    /// Generates the votes of one slot.
    fn slot_votes(rng: &mut SRng, ep: &Epoch, byz: &BTreeSet<usize>, slot: u64, cls: &SlotClass, main: Option<H32>, all_blocks: &[H32], out: &mut Vec<MVote>) {
        let n = ep.n();
        let total = ep.total();
        let pct = |x: u128| x * 100 / total.max(1);
        let mut order: Vec<usize> = (0..n).collect();
        order.shuffle(rng);
        let sides: Vec<H32> = all_blocks.iter().filter(|h| Some(**h) != main).copied().collect();
        // target notar stake (in fifths-ish percent) for the main / strongest block
        let (lo, hi): (u128, u128) = match cls {
            SlotClass::Fast => (80, 100),
            SlotClass::Slow | SlotClass::NotarOnly => (60, 79),
            SlotClass::NfOnly => (20, 59),
            // up to a notarized (never fast-finalizable) block in a slot the main chain passes over
            SlotClass::SideOpen => (0, 79),
            SlotClass::Skip | SlotClass::Empty => (0, 39),
            SlotClass::Rival => (0, 0),
        };
        let target = rng.random_range(lo..=hi);
        let strongest: Option<H32> = main.or_else(|| sides.first().copied());
        let mut initial: BTreeMap<usize, Option<H32>> = BTreeMap::new(); // Some(h)=notar(h), None=skip
        let mut acc = 0u128;
        let mut voters: Vec<usize> = Vec::new();
        // Byzantine validators' additional notarization votes (they vote for both rivals)
        let mut byz_double: Vec<(usize, H32)> = Vec::new();
        if *cls == SlotClass::Rival {
            let m = main.expect("rival slots are chain slots");
            let side = sides[0];
            // R1: the chain block is the notarized one; R2: the chain continues on the weaker block
            let (big, small) = if rng.random_bool(0.5) { (m, side) } else { (side, m) };
            let b_all: u128 = byz.iter().map(|i| ep.stakes[*i] as u128).sum();
            // the thresholds are reached without the first untrusted validator (the Votor harness puts the
            // real node under test in its place, and certificates are offered without its signature)
            let b: u128 = if rng.random_bool(0.5) { b_all } else { b_all - byz.iter().next().map(|i| ep.stakes[*i] as u128).unwrap_or(0) };
            let (mut hb, mut hs) = (0u128, 0u128);
            for &i in &order {
                if byz.contains(&i) {
                    continue;
                }
                let s = ep.stakes[i] as u128;
                if (hb + b) * 5 < 3 * total && (hb + s + b_all) * 5 < 4 * total {
                    initial.insert(i, Some(big));
                    hb += s;
                } else if (hs + b) * 5 < 2 * total && (hs + s + b_all) * 5 < 3 * total {
                    initial.insert(i, Some(small));
                    hs += s;
                }
            }
            for &i in byz {
                initial.insert(i, Some(big));
                byz_double.push((i, small));
            }
        }
        if let Some(h) = strongest.filter(|_| *cls != SlotClass::Rival) {
            for &i in &order {
                let s = ep.stakes[i] as u128;
                let reached = acc * 100 >= target * total;
                // for classes with an upper bound never exceed it
                let would = acc + s;
                let over = match cls {
                    SlotClass::Fast => false,
                    // the block must stay below fast finalization even if every Byzantine validator adds a
                    // notarization vote for it
                    SlotClass::SideOpen => {
                        let byz_rest: u128 = byz.iter().filter(|b| !voters.contains(b) && **b != i).map(|b| ep.stakes[*b] as u128).sum();
                        (would + byz_rest) * 100 > hi * total
                    }
                    _ => would * 100 > hi * total + (total - 1).min(0),
                };
                if reached || over {
                    continue;
                }
                initial.insert(i, Some(h));
                voters.push(i);
                acc += s;
            }
            // classes with a lower bound must reach it; otherwise fall back to a weaker class silently
            let _ = pct;
        }
        // everybody else: skip, or notarize a side block (kept weak in chain slots), or stay silent
        let mut side_acc: BTreeMap<H32, u128> = BTreeMap::new();
        for &i in &order {
            if initial.contains_key(&i) {
                continue;
            }
            let s = ep.stakes[i] as u128;
            let r = rng.random_range(0..100);
            let silent_p = match cls {
                SlotClass::Empty => 60,
                _ => 10,
            };
            if r < silent_p {
                continue;
            }
            let side_ok = !sides.is_empty() && *cls != SlotClass::Rival && {
                let h = sides[rng.random_range(0..sides.len())];
                let cur = *side_acc.get(&h).unwrap_or(&0);
                // side blocks stay below 40 % so that they never compete for a certificate
                let ok = Some(h) != strongest && (cur + s) * 100 < 40 * total;
                if ok && r < 45 {
                    *side_acc.entry(h).or_insert(0) += s;
                    initial.insert(i, Some(h));
                    true
                } else {
                    false
                }
            };
            if !side_ok {
                initial.insert(i, None);
            }
        }
        // Skip class must reach 60 % skip(+fallback): convert silent validators into skippers
        if *cls == SlotClass::Skip {
            for &i in &order {
                initial.entry(i).or_insert(None);
            }
        }
        // global stake picture of the initial votes
        let notar_stake = |h: &H32| -> u128 {
            initial.iter().filter(|(_, v)| **v == Some(*h)).map(|(i, _)| ep.stakes[*i] as u128).sum::<u128>()
                + byz_double.iter().filter(|(_, b)| b == h).map(|(i, _)| ep.stakes[*i] as u128).sum::<u128>()
        };
        let skip_stake: u128 = initial.iter().filter(|(_, v)| v.is_none()).map(|(i, _)| ep.stakes[*i] as u128).sum();
        let per_block: Vec<(H32, u128)> = all_blocks.iter().map(|h| (*h, notar_stake(h))).collect();
        let sum_notar: u128 = per_block.iter().map(|x| x.1).sum();
        let max_notar: u128 = per_block.iter().map(|x| x.1).max().unwrap_or(0);
        let s2s_possible = (skip_stake + sum_notar - max_notar) * 5 >= 2 * total;
        let s2n_possible = |h: &H32| -> bool {
            let nb = notar_stake(h);
            nb * 5 >= 2 * total || (nb * 5 >= total && (nb + skip_stake) * 5 >= 3 * total)
        };
        let finalizable = matches!(cls, SlotClass::Fast | SlotClass::Slow | SlotClass::NotarOnly | SlotClass::Rival) && main.is_some_and(|h| notar_stake(&h) * 5 >= 3 * total);
        let mut final_budget_left = match cls {
            // NotarOnly: honest finals stay below what could form a certificate together with the adversary
            SlotClass::NotarOnly => total * 2 / 5,
            _ => u128::MAX,
        };
        for (&i, init) in &initial {
            let honest = !byz.contains(&i);
            if !honest {
                continue;
            }
            match init {
                Some(h) => {
                    out.push(MVote { signer: i, kind: VK::Notar, slot, hash: Some(*h) });
                    let s = ep.stakes[i] as u128;
                    if finalizable && Some(*h) == main && rng.random_bool(0.85) && s <= final_budget_left {
                        out.push(MVote { signer: i, kind: VK::Final, slot, hash: None });
                        final_budget_left -= s;
                    } else {
                        // no final vote: fallback votes are legal if their condition can hold
                        if s2s_possible && rng.random_bool(0.6) {
                            out.push(MVote { signer: i, kind: VK::SkipFallback, slot, hash: None });
                        }
                        for (b, _) in &per_block {
                            if b != h && s2n_possible(b) && rng.random_bool(0.6) {
                                out.push(MVote { signer: i, kind: VK::NotarFallback, slot, hash: Some(*b) });
                            }
                        }
                    }
                }
                None => {
                    out.push(MVote { signer: i, kind: VK::Skip, slot, hash: None });
                    for (b, _) in &per_block {
                        if s2n_possible(b) && rng.random_bool(0.7) {
                            out.push(MVote { signer: i, kind: VK::NotarFallback, slot, hash: Some(*b) });
                        }
                    }
                }
            }
        }
        // Byzantine validators: their planned initial vote plus arbitrary extra votes
        for &i in byz {
            if let Some(init) = initial.get(&i) {
                match init {
                    Some(h) => out.push(MVote { signer: i, kind: VK::Notar, slot, hash: Some(*h) }),
                    None => out.push(MVote { signer: i, kind: VK::Skip, slot, hash: None }),
                }
            }
            for (j, h) in &byz_double {
                if *j == i {
                    out.push(MVote { signer: i, kind: VK::Notar, slot, hash: Some(*h) });
                }
            }
            let extra = rng.random_range(0..5);
            for _ in 0..extra {
                let kind = *crate::wire::ALL_VK.choose(rng).unwrap();
                let hash = if kind.has_hash() {
                    if all_blocks.is_empty() { Some(label_hash(rng)) } else { Some(all_blocks[rng.random_range(0..all_blocks.len())]) }
                } else {
                    None
                };
                out.push(MVote { signer: i, kind, slot, hash });
            }
        }
    }

    /// All certificates constructible from the world's votes: (kind, slot, hash, first-half
    /// signers, second-half signers) using a random qualifying subset.
    pub fn possible_certs(&self, rng: &mut SRng, ep: &Epoch) -> Vec<(CK, u64, Option<H32>, Vec<usize>, Vec<usize>)> {
        let total = ep.total();
        let mut out = Vec::new();
        let mut by_slot: BTreeMap<u64, Vec<&MVote>> = BTreeMap::new();
        for v in &self.votes {
            by_slot.entry(v.slot).or_default().push(v);
        }
        for (&slot, vs) in &by_slot {
            let voters = |k: VK, h: Option<H32>| -> BTreeSet<usize> { vs.iter().filter(|v| v.kind == k && (h.is_none() || v.hash == h)).map(|v| v.signer).collect() };
            let mut pick = |a: BTreeSet<usize>, b: BTreeSet<usize>, fifths: u128, rng: &mut SRng| -> Option<(Vec<usize>, Vec<usize>)> {
                // each validator once; random order; stop at a random point at or after the threshold
                let b: BTreeSet<usize> = b.difference(&a).copied().collect();
                let mut all: Vec<(usize, bool)> = a.iter().map(|i| (*i, true)).chain(b.iter().map(|i| (*i, false))).collect();
                all.shuffle(rng);
                let mut acc = 0u128;
                let mut fa = Vec::new();
                let mut fb = Vec::new();
                let extra = rng.random_range(0..3);
                let mut after = 0;
                for (i, first) in all {
                    if acc * 5 >= fifths * total {
                        if after >= extra {
                            break;
                        }
                        after += 1;
                    }
                    acc += ep.stakes[i] as u128;
                    if first { fa.push(i) } else { fb.push(i) }
                }
                if acc * 5 >= fifths * total {
                    fa.sort_unstable();
                    fb.sort_unstable();
                    Some((fa, fb))
                } else {
                    None
                }
            };
            let hashes: BTreeSet<H32> = vs.iter().filter_map(|v| v.hash).collect();
            for h in hashes {
                let nv = voters(VK::Notar, Some(h));
                let fv = voters(VK::NotarFallback, Some(h));
                if let Some((a, _)) = pick(nv.clone(), BTreeSet::new(), 3, rng) {
                    out.push((CK::Notar, slot, Some(h), a, vec![]));
                }
                if let Some((a, _)) = pick(nv.clone(), BTreeSet::new(), 4, rng) {
                    out.push((CK::FastFinal, slot, Some(h), a, vec![]));
                }
                if let Some((a, b)) = pick(nv, fv, 3, rng) {
                    out.push((CK::NotarFallback, slot, Some(h), a, b));
                }
            }
            if let Some((a, b)) = pick(voters(VK::Skip, None), voters(VK::SkipFallback, None), 3, rng) {
                out.push((CK::Skip, slot, None, a, b));
            }
            if let Some((a, _)) = pick(voters(VK::Final, None), BTreeSet::new(), 3, rng) {
                out.push((CK::Final, slot, None, a, vec![]));
            }
        }
        out
    }
}
