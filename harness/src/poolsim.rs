//! Pool harness: drives one real `PoolImpl` through a world-derived operation stream and
//! compares it, after every step, with `PoolModel`. Violations are tagged with the property
//! whose clause failed (C03 C04 C06 C07 C08 C18); a check reports only its own clauses.

use std::collections::{BTreeMap, BTreeSet};

use alpenglow::consensus::{AddVoteError, Cert, Pool, PoolEvent, PoolImpl, ValidatedCert, ValidatedVote, VerifFinalization, Vote};
use alpenglow::crypto::merkle::BlockHash;
use alpenglow::types::Slot;
use either::Either;
use rand::prelude::*;
use serde_json::{Value, json};
use tokio::sync::mpsc;

use crate::common::{Epoch, SRng, hex};
use crate::evidence::{Ctx, guarded_async};
use crate::model::*;
use crate::props::c15::to_hash;
use crate::wire::*;
use crate::world::World;

pub fn to_bh(h: &H32) -> BlockHash {
    BlockHash::from(to_hash(h))
}
pub fn to_bid(b: &Bid) -> (Slot, BlockHash) {
    (Slot::new(b.0), to_bh(&b.1))
}
pub fn from_bid(b: &(Slot, BlockHash)) -> Bid {
    (b.0.inner(), hash32(&b.1))
}

pub fn mcert_of(c: &Cert) -> MCert {
    MCert { kind: CK::of(c), slot: c.slot().inner(), hash: c.block_hash().map(hash32), signers: c.signers().map(|v| v.as_usize()).collect() }
}

pub fn mvote_of(v: &Vote) -> MVote {
    MVote { signer: v.signer().as_usize(), kind: vk_of(v), slot: v.slot().inner(), hash: v.block_hash().map(hash32) }
}

#[derive(Clone, Debug)]
pub enum Op {
    Vote(MVote),
    Cert(CK, u64, Option<H32>, Vec<usize>, Vec<usize>),
    Block(Bid, Bid),
    Standstill,
    Wait(u64),
}

impl Op {
    pub fn describe(&self) -> Value {
        match self {
            Op::Vote(v) => json!({"vote": v.kind.name(), "slot": v.slot, "signer": v.signer, "block": v.hash.map(|h| hex(&h[..4]))}),
            Op::Cert(k, s, h, a, b) => json!({"cert": k.name(), "slot": s, "block": h.map(|h| hex(&h[..4])), "signers": a, "signers2": b}),
            Op::Block(b, p) => json!({"add_block": format!("{}:{}", b.0, hex(&b.1[..4])), "parent": format!("{}:{}", p.0, hex(&p.1[..4]))}),
            Op::Standstill => json!("recover_from_standstill"),
            Op::Wait(s) => json!({"wait_for_parent_ready": s}),
        }
    }
    fn slot(&self) -> u64 {
        match self {
            Op::Vote(v) => v.slot,
            Op::Cert(_, s, ..) => *s,
            Op::Block(b, _) => b.0,
            Op::Standstill | Op::Wait(_) => 0,
        }
    }
}

pub struct Rig {
    pub pool: PoolImpl,
    pub rx: mpsc::Receiver<PoolEvent>,
    pub repair_rx: mpsc::Receiver<(Slot, BlockHash)>,
    pub log_seen: usize,
}

impl Rig {
    pub fn new(ep: &Epoch, own: usize) -> Self {
        let (tx, rx) = mpsc::channel(1 << 16);
        let (rtx, repair_rx) = mpsc::channel(1 << 16);
        Self { pool: PoolImpl::new(ep.own(own), tx, rtx), rx, repair_rx, log_seen: 0 }
    }
    pub fn drain(&mut self) -> Vec<PoolEvent> {
        let mut v = Vec::new();
        while let Ok(e) = self.rx.try_recv() {
            v.push(e);
        }
        while self.repair_rx.try_recv().is_ok() {}
        v
    }
}

pub struct RunCfg {
    /// directed order class: parent links are registered newest-first after all votes, and everything
    /// concerning slots without a main-chain block (side-block votes and certificates, skip certificates)
    /// arrives in that late phase too: certificates for slots already decided implicitly, gaps closed late
    pub late_links: bool,
    pub jitter: f64,
    pub dup_votes: f64,
    pub cert_frac: f64,
    pub block_frac: f64,
    pub standstill_every: usize,
    pub waiters: bool,
    pub check_bundle_replay: bool,
}

pub fn build_ops(rng: &mut SRng, ep: &Epoch, w: &World, cfg: &RunCfg) -> Vec<Op> {
    let mut timed: Vec<(f64, Op)> = Vec::new();
    let j = cfg.jitter;
    let mut t_of = |rng: &mut SRng, slot: u64, bias: f64| -> f64 { slot as f64 + bias + if j > 1e6 { rng.random_range(0.0..1e6) } else { rng.random_range(0.0..j.max(0.01)) } };
    for v in &w.votes {
        let bias = match v.kind {
            VK::Notar | VK::Skip => 0.0,
            VK::NotarFallback | VK::SkipFallback => 0.3,
            VK::Final => 0.5,
        };
        timed.push((t_of(rng, v.slot, bias), Op::Vote(v.clone())));
        if rng.random_bool(cfg.dup_votes) {
            timed.push((t_of(rng, v.slot, bias + 0.2), Op::Vote(v.clone())));
        }
    }
    for b in &w.blocks {
        if rng.random_bool(cfg.block_frac) {
            let early = rng.random_bool(0.7);
            timed.push((t_of(rng, b.id.0, if early { -0.2 } else { 0.6 }), Op::Block(b.id, b.parent)));
        }
    }
    for (k, s, h, a, b) in w.possible_certs(rng, ep) {
        if rng.random_bool(cfg.cert_frac) {
            let bias = if rng.random_bool(0.3) { -0.5 } else { 0.7 };
            timed.push((t_of(rng, s, bias), Op::Cert(k, s, h, a, b)));
        }
    }
    if cfg.waiters {
        let first = w.votes.iter().map(|v| v.slot).min().unwrap_or(1);
        let mut s = (first / 4 + 1) * 4;
        while s < first + w.slots + 8 {
            if rng.random_bool(0.5) {
                let at = s as f64 - rng.random_range(0.0..6.0);
                timed.push((at, Op::Wait(s)));
            }
            s += 4;
        }
    }
    if cfg.late_links {
        let max_slot = w.votes.iter().map(|v| v.slot).max().unwrap_or(1) as f64;
        let chain_slots: BTreeSet<u64> = w.blocks.iter().filter(|b| b.on_chain).map(|b| b.id.0).collect();
        let span = 3.0 * (max_slot + 2.0);
        for (t, op) in timed.iter_mut() {
            match op {
                Op::Block(b, _) => {
                    // newest first, spread over the late phase
                    *t = max_slot + 2.0 + (max_slot - b.0 as f64) * 3.0 + rng.random_range(0.0..2.5);
                }
                Op::Vote(v) if !chain_slots.contains(&v.slot) => *t = max_slot + 2.0 + rng.random_range(0.0..span),
                Op::Cert(_, s, ..) if !chain_slots.contains(s) => *t = max_slot + 2.0 + rng.random_range(0.0..span),
                _ => {}
            }
        }
    }
    timed.sort_by(|a, b| a.0.partial_cmp(&b.0).unwrap());
    let mut ops: Vec<Op> = Vec::new();
    for (i, (_, op)) in timed.into_iter().enumerate() {
        if cfg.standstill_every > 0 && i % cfg.standstill_every == 0 {
            ops.push(Op::Standstill);
        }
        ops.push(op);
    }
    ops.push(Op::Standstill);
    ops
}

fn offence_name(e: &AddVoteError) -> String {
    match e {
        AddVoteError::Slashable(o) => format!("{o:?}").split('(').next().unwrap_or("").to_string(),
        _ => String::new(),
    }
}

pub struct Outcome {
    pub steps: usize,
    pub panicked: bool,
}

/// Which property clauses this run reports (others are observed but ignored).
pub fn run_ops(ctx: &mut Ctx, focus: &str, rng: &mut SRng, ep: &Epoch, own: usize, ops: &[Op], cfg: &RunCfg, tag: &str) -> Outcome {
    let rt = tokio::runtime::Builder::new_current_thread().enable_all().start_paused(true).build().expect("rt");
    rt.block_on(tokio::task::unconstrained(run_ops_async(ctx, focus, rng, ep, own, ops, cfg, tag)))
}

fn viol(ctx: &mut Ctx, focus: &str, prop: &str, sig: String, detail: String, hist: &[Value], extra: Value) {
    if prop == focus {
        let h: Vec<&Value> = hist.iter().rev().take(400).collect::<Vec<_>>().into_iter().rev().collect();
        ctx.violation(format!("{prop} {sig}"), detail, json!({"history_tail": h, "history_len": hist.len(), "extra": extra}));
    } else {
        ctx.count(&format!("other-property-clause-failed:{prop}"));
    }
}

async fn run_ops_async(ctx: &mut Ctx, focus: &str, rng: &mut SRng, ep: &Epoch, own: usize, ops: &[Op], cfg: &RunCfg, tag: &str) -> Outcome {
    let mut rig = Rig::new(ep, own);
    let mut m = PoolModel::new(&ep.stakes, own);
    let mut hist: Vec<Value> = Vec::new();
    let mut announced: BTreeSet<(u64, Bid)> = BTreeSet::new();
    let mut created_keys: BTreeSet<CertKey> = BTreeSet::new();
    let mut s2n_seen: BTreeSet<Bid> = BTreeSet::new();
    let mut s2s_seen: BTreeSet<u64> = BTreeSet::new();
    let mut waiters: BTreeMap<u64, tokio::sync::oneshot::Receiver<(Slot, BlockHash)>> = BTreeMap::new();
    let mut waited: BTreeSet<u64> = BTreeSet::new();
    let mut prev_ready: BTreeMap<u64, BTreeSet<Bid>> = BTreeMap::new();
    let mut prev_final = 0u64;
    let mut retention_bad = false;
    let mut vote_cache: BTreeMap<MVote, Vote> = BTreeMap::new();
    let stakes_json = json!(ep.stakes);
    let base = |extra: Value| json!({"n": ep.n(), "stakes": stakes_json, "family": ep.family, "own": own, "tag": tag, "info": extra});

    for (step, op) in ops.iter().enumerate() {
        ctx.eval();
        hist.push(op.describe());
        let hf_before = m.highest_final;
        let w_before = m.watermark;
        let mut exp = StepExpect::default();
        let mut step_is_call = true;
        // ------------------------------------------------------------ apply to real + model
        match op {
            Op::Vote(mv) => {
                let vote = vote_cache.entry(mv.clone()).or_insert_with(|| sign_vote(ep, mv.signer, mv.kind, mv.slot, mv.hash.as_ref().map(to_bh).as_ref())).clone();
                let Ok(vv) = ValidatedVote::try_new(vote, &ep.info) else {
                    viol(ctx, focus, "C09", "harness-signed vote failed validation".into(), String::new(), &hist, base(json!(null)));
                    continue;
                };
                let verdict_pre = m.judge_vote(mv);
                let signer_state_pre = m.signer_state(mv);
                let accepted_before: Value = json!(format!("{:?}", m.slots.get(&mv.slot).map(|s| (s.notar.get(&mv.signer).map(|h| hex(&h[..3])), s.nf.get(&mv.signer).map(|x| x.len()), s.skip.contains(&mv.signer), s.sf.contains(&mv.signer), s.fin.contains(&mv.signer)))));
                let res = guarded_async(rig.pool.add_vote(vv)).await;
                let res = match res {
                    Ok(r) => r,
                    Err(p) => {
                        let prop = if p.msg.contains("safety violation") { "C08" } else { "C03" };
                        for pr in [prop, "C04", "C06", "C07", "C08", "C18", "C03"] {
                            viol(ctx, focus, pr, format!("add_vote {}", p.sig()), format!("{} at {}:{}", p.msg, p.file, p.line), &hist, base(json!({"step": step})));
                        }
                        return Outcome { steps: step, panicked: true };
                    }
                };
                let (verdict, e) = m.apply_vote(mv);
                debug_assert_eq!(verdict, verdict_pre);
                exp = e;
                // C04 clause: admission verdict
                let got = match &res {
                    Ok(()) => "Ok".to_string(),
                    Err(AddVoteError::Duplicate) => "Duplicate".to_string(),
                    Err(AddVoteError::SlotOutOfBounds) => "SlotOutOfBounds".to_string(),
                    Err(e @ AddVoteError::Slashable(_)) => format!("Slashable({})", offence_name(e)),
                };
                let ok = match (&verdict, &res) {
                    (VoteVerdict::Ok, Ok(())) => true,
                    (VoteVerdict::Duplicate, Err(AddVoteError::Duplicate)) => true,
                    (VoteVerdict::OutOfBounds, Err(AddVoteError::SlotOutOfBounds)) => true,
                    (VoteVerdict::Slashable(set), Err(e @ AddVoteError::Slashable(_))) => set.contains(offence_name(e).as_str()),
                    _ => false,
                };
                let vclass = match &verdict {
                    VoteVerdict::Ok => "Ok".to_string(),
                    VoteVerdict::Duplicate => "Duplicate".to_string(),
                    VoteVerdict::OutOfBounds => "SlotOutOfBounds".to_string(),
                    VoteVerdict::Slashable(s) => format!("Slashable({})", s.iter().copied().collect::<Vec<_>>().join("|")),
                };
                ctx.count(&format!("vote-verdict:{vclass}"));
                if focus == "C04" {
                    ctx.distinct(format!("admit:{}:{}:{}", mv.kind.name(), signer_state_pre, vclass));
                }
                if !ok {
                    let prop = if matches!(verdict, VoteVerdict::OutOfBounds) || matches!(res, Err(AddVoteError::SlotOutOfBounds)) { "C08" } else { "C04" };
                    viol(
                        ctx,
                        focus,
                        prop,
                        format!("add_vote({}) returned {got} expected {vclass}", mv.kind.name()),
                        format!("validator {} slot {}; votes already accepted from it in this slot (notar, #nf, skip, sf, final): {accepted_before}; watermark {} highest finalized {}", mv.signer, mv.slot, w_before, hf_before),
                        &hist,
                        base(json!({"step": step})),
                    );
                    return Outcome { steps: step, panicked: false };
                }
            }
            Op::Cert(k, s, h, a, b) => {
                let parts = build_cert(ep, *k, *s, h.as_ref(), a, b);
                let Some(cert) = parts.decode() else { continue };
                let Ok(vc) = ValidatedCert::try_new(cert.clone(), &ep.info) else {
                    // generator produced a sub-threshold certificate: not an input of this harness
                    hist.pop();
                    continue;
                };
                let mc = mcert_of(&cert);
                let res = guarded_async(rig.pool.add_cert(vc)).await;
                let res = match res {
                    Ok(r) => r,
                    Err(p) => {
                        for pr in ["C07", "C08", "C03", "C06", "C18", "C04"] {
                            viol(ctx, focus, pr, format!("add_cert {}", p.sig()), format!("{} at {}:{}", p.msg, p.file, p.line), &hist, base(json!({"step": step})));
                        }
                        return Outcome { steps: step, panicked: true };
                    }
                };
                let (verdict, e) = m.apply_cert(&mc);
                exp = e;
                let got = match &res {
                    Ok(()) => "Ok".to_string(),
                    Err(e) => format!("{e:?}"),
                };
                let want = match verdict {
                    CertVerdict::Ok => "Ok",
                    CertVerdict::Duplicate => "Duplicate",
                    CertVerdict::OutOfBounds => "SlotOutOfBounds",
                };
                ctx.count(&format!("cert-verdict:{want}"));
                if got != want {
                    viol(ctx, focus, "C08", format!("add_cert({}) returned {got} expected {want}", k.name()), format!("slot {s}; watermark {w_before} highest finalized {hf_before}"), &hist, base(json!({"step": step})));
                    return Outcome { steps: step, panicked: false };
                }
            }
            Op::Block(b, p) => {
                let r = guarded_async(rig.pool.add_block(to_bid(b), to_bid(p))).await;
                if let Err(pn) = r {
                    for pr in ["C07", "C08", "C06", "C03", "C18", "C04"] {
                        viol(ctx, focus, pr, format!("add_block {}", pn.sig()), format!("{} at {}:{}", pn.msg, pn.file, pn.line), &hist, base(json!({"step": step})));
                    }
                    return Outcome { steps: step, panicked: true };
                }
                exp = m.apply_block(*b, *p);
            }
            Op::Standstill => {
                step_is_call = false;
                let r = guarded_async(rig.pool.recover_from_standstill()).await;
                ctx.count("standstill-triggers");
                if let Err(pn) = r {
                    viol(ctx, focus, "C18", format!("recover_from_standstill {} finalized={}", pn.sig(), if m.highest_final == 0 { "genesis" } else { "later" }), format!("{} at {}:{}", pn.msg, pn.file, pn.line), &hist, base(json!({"step": step, "highest_finalized": m.highest_final})));
                    // the pool object is still usable (the panic happened before any mutation)
                    let _ = rig.drain();
                    continue;
                }
                let evs = rig.drain();
                let bundle = evs.iter().find_map(|e| match e {
                    PoolEvent::Standstill(s, c, v) => Some((s.inner(), c.clone(), v.clone())),
                    _ => None,
                });
                match bundle {
                    None => viol(ctx, focus, "C18", "recover_from_standstill emitted no Standstill event".into(), String::new(), &hist, base(json!({"step": step}))),
                    Some((_slot, certs, votes)) => check_bundle(ctx, focus, rng, ep, own, &m, &rig, &certs, &votes, &hist, cfg, &base(json!({"step": step}))).await,
                }
                continue;
            }
            Op::Wait(s) => {
                step_is_call = false;
                if *s <= m.highest_final || waited.contains(s) || *s < m.watermark {
                    hist.pop();
                    continue;
                }
                waited.insert(*s);
                let r = guarded_async(async { rig.pool.wait_for_parent_ready(Slot::new(*s)) }).await;
                match r {
                    Err(pn) => {
                        viol(ctx, focus, "C07", format!("wait_for_parent_ready {}", pn.sig()), pn.msg, &hist, base(json!({"step": step})));
                    }
                    Ok(Either::Left(b)) => {
                        let b = from_bid(&b);
                        let ready = m.ready(*s);
                        ctx.count("waiter:immediate");
                        if !ready.contains(&b) {
                            viol(ctx, focus, "C07", "wait_for_parent_ready answered with a parent that is not ready".into(), format!("slot {s} parent {}:{}", b.0, hex(&b.1[..4])), &hist, base(json!({"step": step})));
                        } else if ready.iter().next() != Some(&b) && ready.iter().any(|x| x.0 < b.0) {
                            viol(ctx, focus, "C07", "wait_for_parent_ready immediate answer is not a minimal-slot ready parent".into(), format!("slot {s}"), &hist, base(json!({"step": step})));
                        }
                    }
                    Ok(Either::Right(rx)) => {
                        ctx.count("waiter:registered");
                        if !m.ready(*s).is_empty() {
                            viol(ctx, focus, "C07", "wait_for_parent_ready blocks although a parent is ready".into(), format!("slot {s}: model ready set has {} entries", m.ready(*s).len()), &hist, base(json!({"step": step})));
                        }
                        waiters.insert(*s, rx);
                    }
                }
                continue;
            }
        }
        let _ = step_is_call;
        // ------------------------------------------------------------ events of this step
        let evs = rig.drain();
        let mut created: Vec<Cert> = Vec::new();
        let mut pr: Vec<(u64, Bid)> = Vec::new();
        let mut s2n: BTreeSet<Bid> = BTreeSet::new();
        let mut s2s: BTreeSet<u64> = BTreeSet::new();
        for e in &evs {
            match e {
                PoolEvent::CertCreated(c) => created.push(c.clone()),
                PoolEvent::ParentReady { slot, parent } => pr.push((slot.inner(), from_bid(parent))),
                PoolEvent::SafeToNotar(b) => {
                    let b = from_bid(b);
                    if !s2n.insert(b) || s2n_seen.contains(&b) {
                        viol(ctx, focus, "C06", "safe-to-notar raised more than once for a block".into(), format!("{}:{}", b.0, hex(&b.1[..4])), &hist, base(json!({"step": step})));
                    }
                }
                PoolEvent::SafeToSkip(s) => {
                    if !s2s.insert(s.inner()) || s2s_seen.contains(&s.inner()) {
                        viol(ctx, focus, "C06", "safe-to-skip raised more than once for a slot".into(), format!("slot {s}"), &hist, base(json!({"step": step})));
                    }
                }
                PoolEvent::Standstill(..) => {}
            }
        }
        // ---- C03: created certificates
        let is_recv = matches!(op, Op::Cert(..));
        let mut exp_keys: BTreeMap<CertKey, &MCert> = exp.certs_created.iter().map(|c| (c.key(), c)).collect();
        for c in &created {
            let mc = mcert_of(c);
            let key = mc.key();
            ctx.count(&format!("cert-created:{}{}", mc.kind.name(), if is_recv { "(received)" } else { "" }));
            if !created_keys.insert(key.clone()) {
                viol(ctx, focus, "C03", format!("certificate created twice for the same slot and type kind={}", mc.kind.name()), format!("slot {}", mc.slot), &hist, base(json!({"step": step})));
            }
            if ValidatedCert::try_new(c.clone(), &ep.info).is_err() {
                let st = m.stake(&mc.signers);
                viol(
                    ctx,
                    focus,
                    "C03",
                    format!("created certificate does not validate at a receiver kind={}", mc.kind.name()),
                    format!("slot {} signers {:?} stake {st}/{} (needs {}/5); model expects signers {:?}", mc.slot, mc.signers, m.total, mc.kind.threshold_fifths(), exp_keys.get(&key).map(|e| &e.signers)),
                    &hist,
                    base(json!({"step": step, "cert": hex(&ser(c))})),
                );
            }
            match exp_keys.remove(&key) {
                None => viol(ctx, focus, "C03", format!("certificate created although the accepted votes do not reach its threshold kind={}", mc.kind.name()), format!("slot {} signers {:?}", mc.slot, mc.signers), &hist, base(json!({"step": step}))),
                Some(want) => {
                    if want.hash != mc.hash {
                        viol(ctx, focus, "C03", format!("certificate created for a different block than the votes justify kind={}", mc.kind.name()), String::new(), &hist, base(json!({"step": step})));
                    } else if !is_recv && want.signers != mc.signers {
                        viol(
                            ctx,
                            focus,
                            "C03",
                            format!("certificate signers differ from the validators whose matching votes were accepted kind={}", mc.kind.name()),
                            format!("slot {} got {:?} want {:?}", mc.slot, mc.signers, want.signers),
                            &hist,
                            base(json!({"step": step})),
                        );
                    }
                    if focus == "C03" && !is_recv {
                        let st = m.stake(&mc.signers);
                        let exact = st * 5 == mc.kind.threshold_fifths() * m.total;
                        let crossing = match op {
                            Op::Vote(v) => v.kind.name(),
                            _ => "?",
                        };
                        let mixed = match CertParts::of(c) {
                            p if p.a.is_some() && p.b.is_some() => "mixed",
                            _ => "single",
                        };
                        ctx.distinct(format!("created:{}:by-{}:{}:{}:{}", mc.kind.name(), crossing, ep.family, if exact { "exact" } else { "above" }, mixed));
                    }
                }
            }
        }
        for (k, want) in exp_keys {
            viol(
                ctx,
                focus,
                "C03",
                format!("certificate not created although the accepted votes reach its threshold kind={}", k.kind.name()),
                format!("slot {} accepted signers {:?} stake {}/{}", k.slot, want.signers, m.stake(&want.signers), m.total),
                &hist,
                base(json!({"step": step})),
            );
        }
        // ---- C06: safe-to signals
        for b in &s2n {
            if !exp.s2n_allowed.contains(b) {
                viol(ctx, focus, "C06", "safe-to-notar raised although its conditions do not hold".into(), format!("block {}:{}", b.0, hex(&b.1[..4])), &hist, base(json!({"step": step, "why": s2n_debug(&m, b)})));
            }
        }
        for b in &exp.s2n_required {
            if !s2n.contains(b) {
                let trig = match op {
                    Op::Vote(v) if v.signer == own => "own-vote",
                    Op::Vote(v) => v.kind.name(),
                    Op::Cert(..) => "parent-cert-received",
                    Op::Block(..) => "block-registered",
                    _ => "?",
                };
                viol(ctx, focus, "C06", format!("safe-to-notar not raised when its last condition arrived trigger={trig}"), format!("block {}:{}", b.0, hex(&b.1[..4])), &hist, base(json!({"step": step, "why": s2n_debug(&m, b)})));
            }
        }
        for s in &s2s {
            if !exp.s2s_allowed.contains(s) {
                viol(ctx, focus, "C06", "safe-to-skip raised although its conditions do not hold".into(), format!("slot {s}"), &hist, base(json!({"step": step})));
            }
        }
        for s in &exp.s2s_required {
            if !s2s.contains(s) {
                viol(ctx, focus, "C06", "safe-to-skip not raised when its last condition arrived".into(), format!("slot {s}"), &hist, base(json!({"step": step})));
            }
        }
        if focus == "C06" {
            for b in &s2n {
                let trig = match op {
                    Op::Vote(v) if v.signer == own => "own-vote".to_string(),
                    Op::Vote(v) => format!("{}-vote", v.kind.name()),
                    Op::Cert(k, ..) => format!("{}-cert-received", k.name()),
                    Op::Block(..) => "block-registered".into(),
                    _ => "?".into(),
                };
                let nb = m.stake(&m.notar_voters(b.0, &b.1));
                let branch = if m.meets(nb, 2) { "40%" } else { "20%+60%" };
                ctx.distinct(format!("s2n:{trig}:{branch}:blocks{}", m.blocks_voted(b.0).len().min(3)));
                ctx.count("safe-to-notar-raised");
            }
            for _ in &s2s {
                let trig = match op {
                    Op::Vote(v) if v.signer == own => "own-vote".to_string(),
                    Op::Vote(v) => format!("{}-vote", v.kind.name()),
                    _ => "?".into(),
                };
                ctx.distinct(format!("s2s:{trig}"));
                ctx.count("safe-to-skip-raised");
            }
        }
        // signals that were required count as dealt with (a miss is reported once, with its true trigger)
        let s2n_ok: BTreeSet<Bid> = s2n.intersection(&exp.s2n_allowed).copied().chain(exp.s2n_required.iter().copied()).collect();
        let s2s_ok: BTreeSet<u64> = s2s.intersection(&exp.s2s_allowed).copied().chain(exp.s2s_required.iter().copied()).collect();
        m.note_sent(&s2n_ok, &s2s_ok);
        s2n_seen.extend(s2n.iter().copied());
        s2s_seen.extend(s2s.iter().copied());

        // ---- C08: finalization log, highest finalized slot, watermark, retention
        let snap = rig.pool.verif_snapshot(rig.log_seen);
        rig.log_seen = snap.log_len;
        let mut got_fin: Vec<FinEv> = snap
            .log
            .iter()
            .map(|e| match e {
                VerifFinalization::Finalized(b) => FinEv::Finalized(from_bid(b)),
                VerifFinalization::ImplicitlyFinalized(b) => FinEv::ImplicitlyFinalized(from_bid(b)),
                VerifFinalization::ImplicitlySkipped(s) => FinEv::ImplicitlySkipped(s.inner()),
            })
            .collect();
        let mut want_fin = exp.fin_events.clone();
        got_fin.sort();
        want_fin.sort();
        // genesis is decided from the start; the tracker may or may not report it as an ancestor
        got_fin.retain(|e| !matches!(e, FinEv::ImplicitlyFinalized(b) if b.0 == 0));
        if let Some(Value::Object(o)) = hist.last_mut() {
            if !got_fin.is_empty() {
                o.insert("reported".into(), json!(fin_short(&got_fin)));
            }
            if !created.is_empty() {
                o.insert("created".into(), json!(created.iter().map(|c| format!("{}@{}", CK::of(c).name(), c.slot())).collect::<Vec<_>>()));
            }
            o.insert("w".into(), json!(snap.first_unpruned_slot.inner()));
        }
        if got_fin != want_fin {
            let prev_status = "see history";
            viol(
                ctx,
                focus,
                "C08",
                format!("finalization report differs from the certificate-justified closure op={}", op_kind(op)),
                format!("reported {:?}, model derives {:?} ({prev_status})", fin_short(&got_fin), fin_short(&want_fin)),
                &hist,
                base(json!({"step": step})),
            );
            return Outcome { steps: step, panicked: false };
        }
        for e in &got_fin {
            ctx.count(match e {
                FinEv::Finalized(_) => "finalized",
                FinEv::ImplicitlyFinalized(_) => "implicitly-finalized",
                FinEv::ImplicitlySkipped(_) => "implicitly-skipped",
            });
        }
        if focus == "C08" && !got_fin.is_empty() {
            ctx.distinct(format!("fin:{}:{}:{}", op_kind(op), got_fin.len().min(4), got_fin.iter().map(|e| match e { FinEv::Finalized(_) => 'F', FinEv::ImplicitlyFinalized(_) => 'I', FinEv::ImplicitlySkipped(_) => 'S' }).collect::<String>().chars().take(5).collect::<String>()));
        }
        let fs = rig.pool.finalized_slot().inner();
        if fs != m.highest_final {
            viol(ctx, focus, "C08", "finalized_slot() differs from the model".into(), format!("{fs} vs {}", m.highest_final), &hist, base(json!({"step": step})));
            return Outcome { steps: step, panicked: false };
        }
        if fs < prev_final {
            viol(ctx, focus, "C08", "highest finalized slot decreased".into(), format!("{prev_final} -> {fs}"), &hist, base(json!({"step": step})));
        }
        prev_final = fs;
        if snap.first_unpruned_slot.inner() != m.watermark {
            viol(
                ctx,
                focus,
                "C08",
                format!("first unpruned slot {} the end of the decided prefix op={}", if snap.first_unpruned_slot.inner() < m.watermark { "lags behind" } else { "is ahead of" }, op_kind(op)),
                format!("{} vs model {}", snap.first_unpruned_slot.inner(), m.watermark),
                &hist,
                base(json!({"step": step})),
            );
            return Outcome { steps: step, panicked: false };
        }
        // retention: nothing below the decided prefix; reported when it first becomes wrong
        let stale_slot = snap.retained_slots.iter().find(|s| s.inner() < m.watermark).map(|s| s.inner());
        let stale_wait = snap.waiting_for_parent_cert.iter().find(|b| b.0.inner() < m.watermark).map(|b| b.0.inner());
        let span = m.max_slot_seen.saturating_sub(m.watermark) + 1;
        let too_many = snap.retained_slots.len() as u64 > span + 2;
        let bad_now = stale_slot.is_some() || stale_wait.is_some() || too_many;
        if bad_now && !retention_bad {
            if let Some(old) = stale_slot {
                viol(
                    ctx,
                    focus,
                    "C08",
                    format!("per-slot state retained below the decided prefix after op={} ({})", op_kind(op), if m.watermark > w_before { "prefix advanced in this step" } else { "state created for an old slot" }),
                    format!("slot {old} retained, first unpruned slot {}", m.watermark),
                    &hist,
                    base(json!({"step": step, "retained": snap.retained_slots.iter().map(|s| s.inner()).collect::<Vec<_>>()})),
                );
            } else if let Some(old) = stale_wait {
                viol(ctx, focus, "C08", "safe-to-notar bookkeeping retained for a block below the decided prefix".into(), format!("block in slot {old} still waiting, first unpruned slot {}", m.watermark), &hist, base(json!({"step": step})));
            } else {
                viol(ctx, focus, "C08", "retained state exceeds the undecided suffix".into(), format!("{} slots retained, span {span}", snap.retained_slots.len()), &hist, base(json!({"step": step})));
            }
        }
        retention_bad = bad_now;
        // held certificates agree with the model (retained slots only)
        let got_held: BTreeSet<CertKey> = snap.certs.iter().map(|c| mcert_of(c).key()).filter(|k| k.slot >= m.watermark).collect();
        let want_held: BTreeSet<CertKey> = m.held.keys().cloned().collect();
        if got_held != want_held {
            let missing: Vec<_> = want_held.difference(&got_held).map(|k| format!("{}@{}", k.kind.name(), k.slot)).collect();
            let extra: Vec<_> = got_held.difference(&want_held).map(|k| format!("{}@{}", k.kind.name(), k.slot)).collect();
            viol(ctx, focus, "C03", "certificates held differ from the model's".into(), format!("missing {missing:?} extra {extra:?}"), &hist, base(json!({"step": step})));
            return Outcome { steps: step, panicked: false };
        }
        // queries on retained slots
        for (k, c) in m.held.iter() {
            let s = Slot::new(k.slot);
            match k.kind {
                CK::Notar => {
                    if !rig.pool.has_notar_cert(s) || rig.pool.get_notarized_block(s).map(hash32) != c.hash {
                        viol(ctx, focus, "C08", "has_notar_cert / get_notarized_block disagree with the certificates held".into(), format!("slot {}", k.slot), &hist, base(json!({"step": step})));
                    }
                }
                CK::Final | CK::FastFinal => {
                    if !rig.pool.has_final_cert(s) {
                        viol(ctx, focus, "C08", "has_final_cert disagrees with the certificates held".into(), format!("slot {}", k.slot), &hist, base(json!({"step": step})));
                    }
                }
                CK::Skip => {
                    if !rig.pool.has_skip_cert(s) {
                        viol(ctx, focus, "C08", "has_skip_cert disagrees with the certificates held".into(), format!("slot {}", k.slot), &hist, base(json!({"step": step})));
                    }
                }
                CK::NotarFallback => {
                    if !rig.pool.has_notar_or_fallback_cert(s) {
                        viol(ctx, focus, "C08", "has_notar_or_fallback_cert disagrees with the certificates held".into(), format!("slot {}", k.slot), &hist, base(json!({"step": step})));
                    }
                }
            }
        }

        // ---- C07: parent-ready announcements and query
        let mut step_pairs: BTreeSet<(u64, Bid)> = BTreeSet::new();
        for (s, b) in &pr {
            ctx.count("parent-ready-announced");
            if s % SLOTS_PER_WINDOW != 0 {
                viol(ctx, focus, "C07", "parent-ready announced for a slot that does not start a window".into(), format!("slot {s}"), &hist, base(json!({"step": step})));
            }
            if !m.ready(*s).contains(b) {
                viol(
                    ctx,
                    focus,
                    "C07",
                    "parent-ready announced for a block that is not a certified, skip-connected parent".into(),
                    format!("slot {s} parent {}:{} (certified: {}, model ready set {:?})", b.0, hex(&b.1[..4]), m.certified_blocks().contains(b), m.ready(*s).iter().map(|x| x.0).collect::<Vec<_>>()),
                    &hist,
                    base(json!({"step": step})),
                );
            }
            if !step_pairs.insert((*s, *b)) || announced.contains(&(*s, *b)) {
                viol(ctx, focus, "C07", "parent-ready pair announced more than once".into(), format!("slot {s} parent slot {}", b.0), &hist, base(json!({"step": step})));
            }
        }
        announced.extend(step_pairs.iter().copied());
        // the query, for window starts above the highest finalized slot
        let top = (m.max_slot_seen / 4 + 3) * 4;
        let mut s = ((m.highest_final / 4) + 1) * 4;
        let mut new_pairs: BTreeSet<(u64, Bid)> = BTreeSet::new();
        while s <= top {
            let q: BTreeSet<Bid> = rig.pool.parents_ready(Slot::new(s)).iter().map(from_bid).collect();
            let want = m.ready(s);
            for b in &q {
                if !want.contains(b) {
                    viol(ctx, focus, "C07", "parents_ready lists a block that is not a ready parent".into(), format!("slot {s} parent slot {}", b.0), &hist, base(json!({"step": step})));
                }
            }
            for b in &want {
                if !q.contains(b) {
                    viol(
                        ctx,
                        focus,
                        "C07",
                        format!("parents_ready misses a certified, skip-connected parent op={}", op_kind(op)),
                        format!("window start {s}: parent {}:{} ready in the model (skip chain {:?}) but absent from the query", b.0, hex(&b.1[..4]), (b.0 + 1..s).map(|t| m.skipped(t)).collect::<Vec<_>>()),
                        &hist,
                        base(json!({"step": step})),
                    );
                }
            }
            let before = prev_ready.get(&s).cloned().unwrap_or_default();
            for b in &before {
                if !q.contains(b) {
                    viol(ctx, focus, "C07", "parents_ready lost a pair for an unpruned slot".into(), format!("slot {s}"), &hist, base(json!({"step": step})));
                }
            }
            for b in q.difference(&before) {
                new_pairs.insert((s, *b));
            }
            if focus == "C07" && q.len() >= 1 {
                let via_skip = q.iter().any(|b| b.0 + 1 < s);
                if via_skip {
                    ctx.count("ready-through-skip-chain");
                }
            }
            prev_ready.insert(s, q);
            s += 4;
        }
        prev_ready.retain(|s, _| *s > m.highest_final);
        // announcements must match the new pairs of the query
        if exp.had_finalization {
            if let Some(max_s) = new_pairs.iter().map(|p| p.0).max() {
                if !step_pairs.iter().any(|p| p.0 == max_s) {
                    viol(ctx, focus, "C07", "finalization step announced none of the highest-slot new ready parents".into(), format!("window start {max_s}"), &hist, base(json!({"step": step})));
                }
            }
        } else {
            for p in &new_pairs {
                if !step_pairs.contains(p) {
                    viol(ctx, focus, "C07", format!("new ready parent appeared in the query without being announced op={}", op_kind(op)), format!("window start {} parent slot {}", p.0, p.1.0), &hist, base(json!({"step": step})));
                }
            }
        }
        if focus == "C07" {
            for p in &step_pairs {
                ctx.distinct(format!("pr:{}:gap{}:{}", op_kind(op), (p.0 - p.1.0).min(9), if exp.had_finalization { "fin" } else { "nofin" }));
            }
        }
        // waiters
        let ws: Vec<u64> = waiters.keys().copied().collect();
        for s in ws {
            let ready = m.ready(s);
            let rx = waiters.get_mut(&s).unwrap();
            match rx.try_recv() {
                Ok(b) => {
                    let b = from_bid(&b);
                    ctx.count("waiter:woken");
                    if !ready.contains(&b) {
                        viol(ctx, focus, "C07", "waiter woken with a block that is not a ready parent".into(), format!("slot {s}"), &hist, base(json!({"step": step})));
                    }
                    waiters.remove(&s);
                }
                Err(tokio::sync::oneshot::error::TryRecvError::Empty) => {
                    if !ready.is_empty() && s > m.highest_final {
                        viol(ctx, focus, "C07", "waiter not woken although a parent became ready".into(), format!("slot {s}"), &hist, base(json!({"step": step})));
                        waiters.remove(&s);
                    }
                }
                Err(tokio::sync::oneshot::error::TryRecvError::Closed) => {
                    // dropped by pruning: only legitimate once the slot is decided
                    if s > m.highest_final && s >= m.watermark {
                        viol(ctx, focus, "C07", "waiter dropped for an undecided slot".into(), format!("slot {s}"), &hist, base(json!({"step": step})));
                    }
                    waiters.remove(&s);
                }
            }
        }
        if ctx.violations.len() > 40 {
            return Outcome { steps: step, panicked: false };
        }
    }
    Outcome { steps: ops.len(), panicked: false }
}

fn op_kind(op: &Op) -> String {
    match op {
        Op::Vote(v) => format!("vote-{}", v.kind.name()),
        Op::Cert(k, ..) => format!("cert-{}", k.name()),
        Op::Block(..) => "add_block".into(),
        Op::Standstill => "standstill".into(),
        Op::Wait(_) => "wait".into(),
    }
}

fn fin_short(v: &[FinEv]) -> Vec<String> {
    v.iter()
        .map(|e| match e {
            FinEv::Finalized(b) => format!("F{}:{}", b.0, hex(&b.1[..2])),
            FinEv::ImplicitlyFinalized(b) => format!("I{}:{}", b.0, hex(&b.1[..2])),
            FinEv::ImplicitlySkipped(s) => format!("S{s}"),
        })
        .collect()
}

fn s2n_debug(m: &PoolModel, b: &Bid) -> Value {
    let nb = m.stake(&m.notar_voters(b.0, &b.1));
    let sk = m.slots.get(&b.0).map(|s| m.stake(&s.skip)).unwrap_or(0);
    json!({"notar_stake": nb.to_string(), "skip_stake": sk.to_string(), "total": m.total.to_string(),
           "own_notar": m.slots.get(&b.0).and_then(|s| s.notar.get(&m.own)).map(|h| hex(&h[..4])),
           "own_skip": m.slots.get(&b.0).map(|s| s.skip.contains(&m.own)),
           "registered_parent": m.registered.get(b).map(|p| format!("{}:{}", p.0, hex(&p.1[..4]))),
           "parent_certified": m.parent_certified.contains(b), "already_sent": m.s2n_sent.contains(b), "watermark": m.watermark})
}

// ---------------------------------------------------------------------------- C18

#[allow(clippy::too_many_arguments)]
async fn check_bundle(ctx: &mut Ctx, focus: &str, rng: &mut SRng, ep: &Epoch, own: usize, m: &PoolModel, rig: &Rig, certs: &[Cert], votes: &[Vote], hist: &[Value], cfg: &RunCfg, base: &Value) {
    let keys: Vec<(CK, u64, Option<H32>)> = certs.iter().map(|c| (CK::of(c), c.slot().inner(), c.block_hash().map(hash32))).collect();
    let fin_path = if m.highest_final == 0 { "genesis" } else if keys.iter().any(|k| k.0 == CK::FastFinal && k.1 == m.highest_final) { "fast" } else { "slow" };
    if focus == "C18" {
        ctx.distinct(format!("bundle:{}:{}:later-certs{}:own-votes{}", if m.highest_final == 0 { 0 } else { 1 + m.highest_final % 4 }, fin_path, m.later_certs().len().min(6), m.own_later_votes().len().min(5)));
    }
    if !m.final_proof_ok(&keys) {
        viol(ctx, focus, "C18", "standstill bundle does not prove the highest finalized slot".into(), format!("highest finalized {} bundle {:?}", m.highest_final, keys.iter().map(|k| format!("{}@{}", k.0.name(), k.1)).collect::<Vec<_>>()), hist, base.clone());
    }
    let got: BTreeSet<CertKey> = certs.iter().map(|c| mcert_of(c).key()).collect();
    for k in m.later_certs() {
        if !got.contains(&k) {
            viol(ctx, focus, "C18", format!("standstill bundle misses a certificate held for a later slot kind={}", k.kind.name()), format!("slot {}", k.slot), hist, base.clone());
        }
    }
    let gotv: BTreeSet<MVote> = votes.iter().map(mvote_of).collect();
    for v in m.own_later_votes() {
        if !gotv.contains(&v) {
            viol(ctx, focus, "C18", format!("standstill bundle misses an own vote for a later slot kind={}", v.kind.name()), format!("slot {}", v.slot), hist, base.clone());
        }
    }
    // everything in the bundle validates at a receiver with a different identity
    for c in certs {
        ctx.eval();
        if ValidatedCert::try_new(c.clone(), &ep.info).is_err() {
            viol(ctx, focus, "C18", format!("standstill bundle contains a certificate that fails validation kind={}", CK::of(c).name()), format!("slot {}", c.slot()), hist, base.clone());
        }
    }
    for v in votes {
        ctx.eval();
        if ValidatedVote::try_new(v.clone(), &ep.info).is_err() || v.signer().as_usize() != own {
            viol(ctx, focus, "C18", "standstill bundle contains a vote that fails validation or is not the node's own".into(), format!("slot {}", v.slot()), hist, base.clone());
        }
    }
    ctx.count("bundles-checked");
    // a fresh node fed only the bundle catches up
    if cfg.check_bundle_replay && (focus == "C18" || rng.random_bool(0.1)) {
        let other = (own + 1) % ep.n();
        let mut b = Rig::new(ep, other);
        let mut order: Vec<usize> = (0..certs.len()).collect();
        if rng.random_bool(0.5) {
            order.shuffle(rng);
        }
        let r = guarded_async(async {
            for i in order {
                if let Ok(vc) = ValidatedCert::try_new(certs[i].clone(), &ep.info) {
                    let _ = b.pool.add_cert(vc).await;
                }
            }
            for v in votes {
                if let Ok(vv) = ValidatedVote::try_new(v.clone(), &ep.info) {
                    let _ = b.pool.add_vote(vv).await;
                }
            }
        })
        .await;
        if let Err(p) = r {
            viol(ctx, focus, "C18", format!("fresh pool fed the bundle {}", p.sig()), p.msg, hist, base.clone());
            return;
        }
        ctx.count("bundle-replays");
        let fa = rig.pool.finalized_slot();
        let fb = b.pool.finalized_slot();
        if fa != fb {
            viol(
                ctx,
                focus,
                "C18",
                format!("fresh pool fed only the bundle reaches a different highest finalized slot ({})", if fa.inner() >= 2 * SLOTS_PER_EPOCH { "beyond the fresh pool's admission window" } else { "within the admission window" }),
                format!("sender {fa} receiver {fb}"),
                hist,
                base.clone(),
            );
            return;
        }
        let mut s = (fa.inner() / 4 + 1) * 4;
        for _ in 0..2 {
            let qa: BTreeSet<Bid> = rig.pool.parents_ready(Slot::new(s)).iter().map(from_bid).collect();
            let qb: BTreeSet<Bid> = b.pool.parents_ready(Slot::new(s)).iter().map(from_bid).collect();
            if qa != qb {
                viol(ctx, focus, "C18", "fresh pool fed only the bundle has different ready parents for the following window".into(), format!("window start {s}: sender {:?} receiver {:?}", qa.iter().map(|x| x.0).collect::<Vec<_>>(), qb.iter().map(|x| x.0).collect::<Vec<_>>()), hist, base.clone());
                break;
            }
            s += 4;
        }
    }
}
