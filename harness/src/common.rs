//! Shared helpers: seeded RNGs, epochs (validator sets), stake families, addresses.

use std::net::{IpAddr, Ipv4Addr, SocketAddr};
use std::sync::Arc;

use alpenglow::consensus::{EpochInfo, ValidatorEpochInfo};
use alpenglow::crypto::merkle::BlockHash;
use alpenglow::crypto::{Hash, aggsig, signature};
use alpenglow::{Stake, ValidatorIndex, ValidatorInfo};
use rand::prelude::*;
use rand::rngs::StdRng;

pub type SRng = StdRng;

/// Deterministic RNG from a seed and a domain tag.
pub fn mk_rng(seed: u64, tag: &str) -> SRng {
    let mut s = [0u8; 32];
    s[..8].copy_from_slice(&seed.to_le_bytes());
    let t = tag.as_bytes();
    for (i, b) in t.iter().enumerate() {
        s[8 + (i % 24)] ^= *b;
        s[8 + ((i * 7 + 3) % 24)] = s[8 + ((i * 7 + 3) % 24)].wrapping_add(*b).rotate_left(3);
    }
    StdRng::from_seed(s)
}

/// Endpoint kinds of a node; encoded in the last octet of the socket address.
#[derive(Clone, Copy, Debug, PartialEq, Eq, PartialOrd, Ord, Hash)]
pub enum Ep {
    All2All = 1,
    Diss = 2,
    RepairReq = 3,
    RepairResp = 4,
    Tx = 5,
}

pub fn addr(ep: Ep, v: usize) -> SocketAddr {
    SocketAddr::new(IpAddr::V4(Ipv4Addr::new(10, 0, (v / 60000) as u8, ep as u8)), (v % 60000) as u16 + 1)
}

pub fn addr_decode(a: SocketAddr) -> Option<(Ep, usize)> {
    let IpAddr::V4(ip) = a.ip() else { return None };
    let o = ip.octets();
    if o[0] != 10 || o[1] != 0 {
        return None;
    }
    let ep = match o[3] {
        1 => Ep::All2All,
        2 => Ep::Diss,
        3 => Ep::RepairReq,
        4 => Ep::RepairResp,
        5 => Ep::Tx,
        _ => return None,
    };
    Some((ep, o[2] as usize * 60000 + a.port() as usize - 1))
}

/// A validator set with all secret keys known to the harness.
#[derive(Clone)]
pub struct Epoch {
    pub sks: Vec<signature::SecretKey>,
    pub vsks: Vec<aggsig::SecretKey>,
    pub info: EpochInfo,
    pub stakes: Vec<u64>,
    pub family: String,
}

impl Epoch {
    pub fn n(&self) -> usize {
        self.stakes.len()
    }
    pub fn total(&self) -> u128 {
        self.stakes.iter().map(|s| *s as u128).sum()
    }
    pub fn own(&self, id: usize) -> Arc<ValidatorEpochInfo> {
        Arc::new(ValidatorEpochInfo::new(ValidatorIndex::new(id as u64), self.info.clone()))
    }
    pub fn validators(&self) -> &[ValidatorInfo] {
        self.info.validators()
    }
    /// stake * den >= num * total  (exact threshold test, independent of the crate)
    pub fn meets(&self, stake: u128, num: u128, den: u128) -> bool {
        stake * den >= num * self.total()
    }
    pub fn stake_of(&self, set: impl IntoIterator<Item = usize>) -> u128 {
        set.into_iter().map(|i| self.stakes[i] as u128).sum()
    }
}

pub fn make_epoch(rng: &mut SRng, stakes: &[u64], family: &str) -> Epoch {
    let mut sks = Vec::new();
    let mut vsks = Vec::new();
    let mut vals = Vec::new();
    for (i, st) in stakes.iter().enumerate() {
        let sk = signature::SecretKey::new(rng);
        let vsk = aggsig::SecretKey::new(rng);
        vals.push(ValidatorInfo {
            id: ValidatorIndex::new(i as u64),
            stake: Stake::new(*st),
            pubkey: sk.to_pk(),
            voting_pubkey: vsk.to_pk(),
            all2all_address: addr(Ep::All2All, i),
            disseminator_address: addr(Ep::Diss, i),
            repair_requester_address: addr(Ep::RepairReq, i),
            repair_responder_address: addr(Ep::RepairResp, i),
        });
        sks.push(sk);
        vsks.push(vsk);
    }
    Epoch { sks, vsks, info: EpochInfo::new(vals), stakes: stakes.to_vec(), family: family.to_string() }
}

/// Cheap epoch for routing / sampling workloads: all validators share one key pair
/// (keys are irrelevant there), so that n in the thousands is affordable.
pub fn make_epoch_cheap(rng: &mut SRng, stakes: &[u64], family: &str) -> Epoch {
    let sk = signature::SecretKey::new(rng);
    let vsk = aggsig::SecretKey::new(rng);
    let mut vals = Vec::new();
    for (i, st) in stakes.iter().enumerate() {
        vals.push(ValidatorInfo {
            id: ValidatorIndex::new(i as u64),
            stake: Stake::new(*st),
            pubkey: sk.to_pk(),
            voting_pubkey: vsk.to_pk(),
            all2all_address: addr(Ep::All2All, i),
            disseminator_address: addr(Ep::Diss, i),
            repair_requester_address: addr(Ep::RepairReq, i),
            repair_responder_address: addr(Ep::RepairResp, i),
        });
    }
    Epoch {
        sks: vec![sk; stakes.len()],
        vsks: vec![vsk; stakes.len()],
        info: EpochInfo::new(vals),
        stakes: stakes.to_vec(),
        family: family.to_string(),
    }
}

pub const FAMILIES: &[&str] = &["equal", "smallint", "exact5", "exact10", "exact100", "heavy", "whale60", "whale80", "lamports", "lamports-whale"];

/// Generates stakes for `n` validators from the named family.
pub fn gen_stakes(rng: &mut SRng, family: &str, n: usize) -> Vec<u64> {
    assert!(n >= 1);
    match family {
        "equal" => vec![1; n],
        "smallint" => (0..n).map(|_| rng.random_range(1..=9)).collect(),
        // totals of 5 / 10 / 100 with subsets landing exactly on 20/40/60/80 %
        "exact5" | "exact10" | "exact100" => {
            let total: u64 = match family {
                "exact5" => 5,
                "exact10" => 10,
                _ => 100,
            };
            if (n as u64) > total {
                return vec![1; n];
            }
            // random composition of `total` into n positive parts
            let mut parts = vec![1u64; n];
            let mut left = total - n as u64;
            while left > 0 {
                let i = rng.random_range(0..n);
                let add = rng.random_range(1..=left.min((total / 5).max(1)));
                parts[i] += add;
                left -= add;
            }
            parts
        }
        "heavy" => {
            // heavy tailed: stake_i ~ 1000 / (i+1)^a
            let a: f64 = rng.random_range(0.8..1.6);
            let mut v: Vec<u64> = (0..n).map(|i| ((1000.0 / ((i + 1) as f64).powf(a)) as u64).max(1)).collect();
            v.shuffle(rng);
            v
        }
        "whale60" | "whale80" => {
            let pct: u64 = if family == "whale60" { rng.random_range(60..80) } else { rng.random_range(80..95) };
            if n == 1 {
                return vec![7];
            }
            let others: Vec<u64> = (0..n - 1).map(|_| rng.random_range(1..=5)).collect();
            let rest: u64 = others.iter().sum();
            // whale / (whale + rest) >= pct/100  => whale >= pct*rest/(100-pct)
            let whale = (pct * rest).div_ceil(100 - pct);
            let pos = rng.random_range(0..n);
            let mut v = others;
            v.insert(pos, whale.max(1));
            v
        }
        "lamports" => (0..n).map(|_| rng.random_range(1_000_000_000u64..400_000_000_000_000u64)).collect(),
        "lamports-whale" => {
            let mut v: Vec<u64> = (0..n).map(|_| rng.random_range(1_000_000_000u64..40_000_000_000_000u64)).collect();
            let rest: u128 = v.iter().map(|s| *s as u128).sum();
            let i = rng.random_range(0..n);
            // one validator with 50..90 % of a total around 10^17..10^18
            let pct = rng.random_range(50..90u128);
            let whale = (rest * pct / (100 - pct)).clamp(1, 3_000_000_000_000_000_000) as u64;
            v[i] = whale;
            v
        }
        _ => panic!("unknown stake family {family}"),
    }
}

pub fn pick_family(rng: &mut SRng, families: &[&'static str]) -> &'static str {
    families[rng.random_range(0..families.len())]
}

/// A block hash derived from a label (harness-side synthetic blocks).
pub fn bh(label: u64) -> BlockHash {
    let h = alpenglow::crypto::hash(&[b"agv-block".as_slice(), &label.to_le_bytes()].concat());
    h.into()
}

pub fn hash_bytes(h: &Hash) -> [u8; 32] {
    let mut o = [0u8; 32];
    o.copy_from_slice(h.as_ref());
    o
}

pub fn hex(b: &[u8]) -> String {
    b.iter().map(|x| format!("{x:02x}")).collect()
}

pub fn short(h: &BlockHash) -> String {
    use alpenglow::crypto::merkle::MerkleRoot;
    hex(&h.as_hash().as_ref()[..4])
}

/// FNV-1a 64 for cheap distinct-case keys.
pub fn fnv(data: &[u8]) -> u64 {
    let mut h: u64 = 0xcbf29ce484222325;
    for b in data {
        h ^= *b as u64;
        h = h.wrapping_mul(0x100000001b3);
    }
    h
}
