use std::time::Instant;

use agv::evidence::{Ctx, Tier, install_panic_hook};

fn arg(args: &[String], name: &str) -> Option<String> {
    args.iter().position(|a| a == name).and_then(|i| args.get(i + 1).cloned())
}

fn main() {
    let args: Vec<String> = std::env::args().collect();
    if args.len() < 2 {
        eprintln!("usage: agv <PROP|selftest> [--tier quick|thorough] [--seed N] [--shard i/n] [--scale f] [--out FILE]");
        std::process::exit(2);
    }
    let prop = args[1].clone();
    let tier = match arg(&args, "--tier").as_deref() {
        Some("thorough") => Tier::Thorough,
        _ => Tier::Quick,
    };
    let seed: u64 = arg(&args, "--seed").and_then(|s| s.parse().ok()).unwrap_or(1);
    let (shard, nshards) = arg(&args, "--shard")
        .and_then(|s| {
            let (a, b) = s.split_once('/')?;
            Some((a.parse().ok()?, b.parse().ok()?))
        })
        .unwrap_or((0usize, 1usize));
    let scale: f64 = arg(&args, "--scale").and_then(|s| s.parse().ok()).unwrap_or(1.0);
    let out = arg(&args, "--out");

    install_panic_hook();

    if prop == "selftest" {
        let mut rng = agv::common::mk_rng(seed, "selftest");
        let ep = agv::common::make_epoch(&mut rng, &[3, 1, 2, 5], "smallint");
        match agv::wire::selftest(&ep) {
            Ok(()) => {
                println!("selftest ok");
                std::process::exit(0)
            }
            Err(e) => {
                println!("selftest FAILED: {e}");
                std::process::exit(2)
            }
        }
    }

    let mut ctx = Ctx::new(&prop, tier, seed, shard, nshards, scale);
    let t0 = Instant::now();
    let res = match std::panic::catch_unwind(std::panic::AssertUnwindSafe(|| agv::props::run(&mut ctx))) {
        Ok(r) => r,
        Err(_) => {
            let ps = agv::evidence::take_panics();
            let last = ps.last().map(|p| format!("{} at {}:{}", p.msg, p.file, p.line)).unwrap_or_default();
            eprintln!("harness panic: {last}");
            Err(format!("harness panic (not a verdict): {last}"))
        }
    };
    let wall = t0.elapsed().as_secs_f64();
    let mut j = ctx.to_json(wall);
    if let Err(e) = &res {
        j["error"] = serde_json::Value::String(e.clone());
    }
    let s = serde_json::to_string(&j).unwrap();
    match out {
        Some(p) => std::fs::write(p, s).expect("write out"),
        None => println!("{s}"),
    }
    std::process::exit(if res.is_err() { 2 } else { 0 });
}
