//! PoolModel: executable reference model of the vote/certificate pool, written from the
//! property statements (C03, C04, C06, C07, C08, C18). Plain single-threaded Rust; it never
//! calls into the crate.

use std::collections::{BTreeMap, BTreeSet};

use crate::wire::{CK, VK};

pub type H32 = [u8; 32];
/// Block id in model space.
pub type Bid = (u64, H32);

pub const GENESIS: Bid = (0, [0u8; 32]);
pub const SLOTS_PER_WINDOW: u64 = 4;
pub const SLOTS_PER_EPOCH: u64 = 18_000;

#[derive(Clone, Debug, PartialEq, Eq, PartialOrd, Ord)]
pub struct MVote {
    pub signer: usize,
    pub kind: VK,
    pub slot: u64,
    pub hash: Option<H32>,
}

/// Certificate key: one per slot and type; per block for notar-fallback. The hash of a
/// notar / fast-final certificate is part of the value, not of the key.
#[derive(Clone, Debug, PartialEq, Eq, PartialOrd, Ord)]
pub struct CertKey {
    pub kind: CK,
    pub slot: u64,
    pub nf_hash: Option<H32>,
}

#[derive(Clone, Debug, PartialEq, Eq)]
pub struct MCert {
    pub kind: CK,
    pub slot: u64,
    pub hash: Option<H32>,
    /// Distinct signers (union of both halves).
    pub signers: BTreeSet<usize>,
}

impl MCert {
    pub fn key(&self) -> CertKey {
        CertKey { kind: self.kind, slot: self.slot, nf_hash: if self.kind == CK::NotarFallback { self.hash } else { None } }
    }
}

#[derive(Clone, Debug, PartialEq, Eq)]
pub enum VoteVerdict {
    Ok,
    OutOfBounds,
    Duplicate,
    /// Any of the listed offence names is acceptable.
    Slashable(BTreeSet<&'static str>),
}

#[derive(Clone, Debug, PartialEq, Eq)]
pub enum CertVerdict {
    Ok,
    OutOfBounds,
    Duplicate,
}

#[derive(Clone, Debug, PartialEq, Eq, PartialOrd, Ord)]
pub enum FinEv {
    Finalized(Bid),
    ImplicitlyFinalized(Bid),
    ImplicitlySkipped(u64),
}

#[derive(Clone, Debug, PartialEq, Eq)]
pub enum Decided {
    Final(H32),
    ImplFinal(H32),
    ImplSkipped,
}

#[derive(Clone, Debug, Default)]
pub struct SlotM {
    pub notar: BTreeMap<usize, H32>,
    pub nf: BTreeMap<usize, BTreeSet<H32>>,
    pub skip: BTreeSet<usize>,
    pub sf: BTreeSet<usize>,
    pub fin: BTreeSet<usize>,
}

/// What the model expects a step to produce.
#[derive(Clone, Debug, Default)]
pub struct StepExpect {
    /// Certificates that must be created in this step (from votes) or forwarded (received).
    pub certs_created: Vec<MCert>,
    pub fin_events: Vec<FinEv>,
    /// Safe-to-notar keys that must be raised now / may be raised now.
    pub s2n_required: BTreeSet<Bid>,
    pub s2n_allowed: BTreeSet<Bid>,
    pub s2s_required: BTreeSet<u64>,
    pub s2s_allowed: BTreeSet<u64>,
    pub had_finalization: bool,
}

pub struct PoolModel {
    pub stakes: Vec<u64>,
    pub total: u128,
    pub own: usize,
    pub slots: BTreeMap<u64, SlotM>,
    /// Certificates accepted so far that are still held (slot >= watermark).
    pub held: BTreeMap<CertKey, MCert>,
    /// Every certificate ever accepted (for parent-ready connectivity).
    pub ever: BTreeMap<CertKey, MCert>,
    /// Parent links known to the finality logic.
    pub links: BTreeMap<Bid, Bid>,
    /// Blocks registered for safe-to-notar purposes (block -> parent).
    pub registered: BTreeMap<Bid, Bid>,
    /// Registered blocks whose parent certificate was held at the end of some step (the signal is
    /// then required once the remaining conditions hold).
    pub parent_certified: BTreeSet<Bid>,
    /// ... or held at some point within a step, possibly before that step pruned the parent's slot
    /// (the signal is then allowed, not required).
    pub parent_certified_weak: BTreeSet<Bid>,
    pub decided: BTreeMap<u64, Decided>,
    pub highest_final: u64,
    pub watermark: u64,
    pub s2n_sent: BTreeSet<Bid>,
    pub s2s_sent: BTreeSet<u64>,
    pub max_slot_seen: u64,
}

impl PoolModel {
    pub fn new(stakes: &[u64], own: usize) -> Self {
        let mut decided = BTreeMap::new();
        decided.insert(0, Decided::Final(GENESIS.1));
        Self {
            stakes: stakes.to_vec(),
            total: stakes.iter().map(|s| *s as u128).sum(),
            own,
            slots: BTreeMap::new(),
            held: BTreeMap::new(),
            ever: BTreeMap::new(),
            links: BTreeMap::new(),
            registered: BTreeMap::new(),
            parent_certified: BTreeSet::new(),
            parent_certified_weak: BTreeSet::new(),
            decided,
            highest_final: 0,
            watermark: 0,
            s2n_sent: BTreeSet::new(),
            s2s_sent: BTreeSet::new(),
            max_slot_seen: 0,
        }
    }

    pub fn stake<'a>(&self, set: impl IntoIterator<Item = &'a usize>) -> u128 {
        set.into_iter().map(|i| self.stakes[*i] as u128).sum()
    }

    /// stake >= fifths/5 of total, exactly.
    pub fn meets(&self, stake: u128, fifths: u128) -> bool {
        stake * 5 >= fifths * self.total
    }

    pub fn in_bounds(&self, slot: u64) -> bool {
        slot >= self.watermark && slot < self.highest_final + 2 * SLOTS_PER_EPOCH
    }

    // ---------------------------------------------------------------- C04: vote admission

    pub fn judge_vote(&self, v: &MVote) -> VoteVerdict {
        if !self.in_bounds(v.slot) {
            return VoteVerdict::OutOfBounds;
        }
        let empty = SlotM::default();
        let s = self.slots.get(&v.slot).unwrap_or(&empty);
        let i = v.signer;
        let has_notar = s.notar.get(&i);
        let has_nf = s.nf.get(&i).is_some_and(|m| !m.is_empty());
        let has_skip = s.skip.contains(&i);
        let has_sf = s.sf.contains(&i);
        let has_fin = s.fin.contains(&i);
        let mut off: BTreeSet<&'static str> = BTreeSet::new();
        match v.kind {
            VK::Notar => {
                if has_skip {
                    off.insert("SkipAndNotarize");
                }
                if has_notar.is_some_and(|h| Some(*h) != v.hash) {
                    off.insert("NotarDifferentHash");
                }
            }
            VK::NotarFallback => {
                if has_fin {
                    off.insert("NotarFallbackAndFinalize");
                }
            }
            VK::Skip => {
                if has_fin {
                    off.insert("SkipAndFinalize");
                }
                if has_notar.is_some() {
                    off.insert("SkipAndNotarize");
                }
            }
            VK::SkipFallback => {
                if has_fin {
                    off.insert("SkipAndFinalize");
                }
            }
            VK::Final => {
                if has_skip || has_sf {
                    off.insert("SkipAndFinalize");
                }
                if has_nf {
                    off.insert("NotarFallbackAndFinalize");
                }
            }
        }
        if !off.is_empty() {
            return VoteVerdict::Slashable(off);
        }
        let h = v.hash.unwrap_or([0; 32]);
        let dup = match v.kind {
            VK::Notar => has_notar.is_some() || s.nf.get(&i).is_some_and(|m| m.contains(&h)),
            VK::NotarFallback => s.nf.get(&i).is_some_and(|m| m.contains(&h)) || has_notar == Some(&h),
            VK::Skip => has_skip || has_sf,
            VK::SkipFallback => has_sf || has_skip,
            VK::Final => has_fin,
        };
        if dup { VoteVerdict::Duplicate } else { VoteVerdict::Ok }
    }

    /// Abstract description of what is already accepted from the vote's signer in its slot,
    /// relative to the incoming vote's block (used as distinct-case key).
    pub fn signer_state(&self, v: &MVote) -> String {
        let empty = SlotM::default();
        let s = self.slots.get(&v.slot).unwrap_or(&empty);
        let i = v.signer;
        let h = v.hash.unwrap_or([0; 32]);
        let notar = match s.notar.get(&i) {
            None => "-",
            Some(x) if *x == h && v.kind.has_hash() => "N(same)",
            Some(_) => if v.kind.has_hash() { "N(other)" } else { "N" },
        };
        let nf = match s.nf.get(&i) {
            None => "-".to_string(),
            Some(m) if !v.kind.has_hash() => format!("NF{}", m.len().min(2)),
            Some(m) => format!("NF({}{})", if m.contains(&h) { "same" } else { "" }, if m.iter().any(|x| *x != h) { "+other" } else { "" }),
        };
        format!("{notar},{nf},{},{},{}", if s.skip.contains(&i) { "S" } else { "-" }, if s.sf.contains(&i) { "SF" } else { "-" }, if s.fin.contains(&i) { "F" } else { "-" })
    }

    // ---------------------------------------------------------------- stake views

    pub fn notar_voters(&self, slot: u64, h: &H32) -> BTreeSet<usize> {
        self.slots.get(&slot).map(|s| s.notar.iter().filter(|(_, x)| *x == h).map(|(i, _)| *i).collect()).unwrap_or_default()
    }
    pub fn nf_voters(&self, slot: u64, h: &H32) -> BTreeSet<usize> {
        self.slots.get(&slot).map(|s| s.nf.iter().filter(|(_, m)| m.contains(h)).map(|(i, _)| *i).collect()).unwrap_or_default()
    }
    pub fn blocks_voted(&self, slot: u64) -> BTreeSet<H32> {
        let mut b = BTreeSet::new();
        if let Some(s) = self.slots.get(&slot) {
            b.extend(s.notar.values().copied());
            for m in s.nf.values() {
                b.extend(m.iter().copied());
            }
        }
        b
    }

    /// Certificates whose threshold is met by the accepted votes of `slot` and that are not held yet.
    fn certs_due(&self, slot: u64) -> Vec<MCert> {
        let mut out = Vec::new();
        let Some(s) = self.slots.get(&slot) else { return out };
        let held = |k: CertKey| self.held.contains_key(&k);
        for h in self.blocks_voted(slot) {
            let nv = self.notar_voters(slot, &h);
            let fv = self.nf_voters(slot, &h);
            let both: BTreeSet<usize> = nv.union(&fv).copied().collect();
            if self.meets(self.stake(&both), 3) && !held(CertKey { kind: CK::NotarFallback, slot, nf_hash: Some(h) }) {
                out.push(MCert { kind: CK::NotarFallback, slot, hash: Some(h), signers: both });
            }
            if self.meets(self.stake(&nv), 3) && !held(CertKey { kind: CK::Notar, slot, nf_hash: None }) {
                out.push(MCert { kind: CK::Notar, slot, hash: Some(h), signers: nv.clone() });
            }
            if self.meets(self.stake(&nv), 4) && !held(CertKey { kind: CK::FastFinal, slot, nf_hash: None }) {
                out.push(MCert { kind: CK::FastFinal, slot, hash: Some(h), signers: nv.clone() });
            }
        }
        let sk: BTreeSet<usize> = s.skip.union(&s.sf).copied().collect();
        if self.meets(self.stake(&sk), 3) && !held(CertKey { kind: CK::Skip, slot, nf_hash: None }) {
            out.push(MCert { kind: CK::Skip, slot, hash: None, signers: sk });
        }
        if self.meets(self.stake(&s.fin), 3) && !held(CertKey { kind: CK::Final, slot, nf_hash: None }) {
            out.push(MCert { kind: CK::Final, slot, hash: None, signers: s.fin.clone() });
        }
        out
    }

    // ---------------------------------------------------------------- C06 predicates

    fn s2n_holds(&self, slot: u64, h: &H32) -> bool {
        self.s2n_holds_with(slot, h, false)
    }

    fn s2n_holds_with(&self, slot: u64, h: &H32, weak: bool) -> bool {
        let Some(s) = self.slots.get(&slot) else { return false };
        // own initial vote exists and is not notar(b)
        let own_notar = s.notar.get(&self.own);
        let own_skip = s.skip.contains(&self.own);
        if !(own_skip || own_notar.is_some()) {
            return false;
        }
        if own_notar == Some(h) {
            return false;
        }
        let nb = self.stake(&self.notar_voters(slot, h));
        let sk = self.stake(&s.skip);
        if !(self.meets(nb, 2) || (self.meets(nb, 1) && self.meets(nb + sk, 3))) {
            return false;
        }
        if weak { self.parent_certified_weak.contains(&(slot, *h)) } else { self.parent_certified.contains(&(slot, *h)) }
    }

    fn s2s_holds(&self, slot: u64) -> bool {
        let Some(s) = self.slots.get(&slot) else { return false };
        if !s.notar.contains_key(&self.own) {
            return false;
        }
        let sk = self.stake(&s.skip);
        let mut per: BTreeMap<H32, u128> = BTreeMap::new();
        for (i, h) in &s.notar {
            *per.entry(*h).or_insert(0) += self.stakes[*i] as u128;
        }
        let sum: u128 = per.values().sum();
        let max: u128 = per.values().copied().max().unwrap_or(0);
        self.meets(sk + sum - max, 2)
    }

    fn block_cert_held(&self, b: &Bid) -> bool {
        // genesis never carries a certificate; it counts as notarized (as for ready parents, C07)
        if *b == GENESIS {
            return true;
        }
        if b.0 < self.watermark {
            return false;
        }
        self.held.values().any(|c| c.slot == b.0 && c.hash == Some(b.1) && matches!(c.kind, CK::Notar | CK::NotarFallback | CK::FastFinal))
    }

    fn refresh_parent_certified(&mut self, end_of_step: bool) {
        let newly: Vec<Bid> = self.registered.iter().filter(|(b, p)| b.0 >= self.watermark && self.block_cert_held(p)).map(|(b, _)| *b).collect();
        self.parent_certified_weak.extend(newly.iter().copied());
        if end_of_step {
            self.parent_certified.extend(newly);
        }
    }

    // ---------------------------------------------------------------- C08 finality closure

    pub fn direct_final(&self, slot: u64) -> Option<H32> {
        if let Some(c) = self.ever.get(&CertKey { kind: CK::FastFinal, slot, nf_hash: None }) {
            return c.hash;
        }
        if self.ever.contains_key(&CertKey { kind: CK::Final, slot, nf_hash: None }) {
            if let Some(c) = self.ever.get(&CertKey { kind: CK::Notar, slot, nf_hash: None }) {
                return c.hash;
            }
        }
        None
    }

    fn is_finalized_block(&self, b: &Bid) -> bool {
        matches!(self.decided.get(&b.0), Some(Decided::Final(h) | Decided::ImplFinal(h)) if *h == b.1)
    }

    /// Recomputes the finality closure; returns newly derived events.
    fn close_finality(&mut self, candidate_slots: &BTreeSet<u64>) -> Vec<FinEv> {
        let mut ev = Vec::new();
        for &s in candidate_slots {
            if let Some(h) = self.direct_final(s) {
                self.highest_final = self.highest_final.max(s);
                match self.decided.get(&s) {
                    None => {
                        self.decided.insert(s, Decided::Final(h));
                        ev.push(FinEv::Finalized((s, h)));
                    }
                    Some(Decided::ImplFinal(x)) if *x == h => {
                        // already reported as implicitly finalized: reported once
                        self.decided.insert(s, Decided::Final(h));
                    }
                    _ => {}
                }
            }
        }
        // propagate along known parent links
        loop {
            let mut changed = false;
            let fin: Vec<Bid> = self.decided.iter().filter_map(|(s, d)| match d {
                Decided::Final(h) | Decided::ImplFinal(h) => Some((*s, *h)),
                Decided::ImplSkipped => None,
            }).collect();
            for b in fin {
                if b.0 < self.watermark {
                    continue;
                }
                let Some(p) = self.links.get(&b).copied() else { continue };
                if p.0 < self.watermark {
                    continue;
                }
                if !self.is_finalized_block(&p) && !self.decided.contains_key(&p.0) {
                    // slots in between are skipped as a consequence
                    for s in p.0 + 1..b.0 {
                        if !self.decided.contains_key(&s) {
                            self.decided.insert(s, Decided::ImplSkipped);
                            ev.push(FinEv::ImplicitlySkipped(s));
                        }
                    }
                    self.decided.insert(p.0, Decided::ImplFinal(p.1));
                    ev.push(FinEv::ImplicitlyFinalized(p));
                    changed = true;
                } else if self.is_finalized_block(&p) {
                    for s in p.0 + 1..b.0 {
                        if !self.decided.contains_key(&s) {
                            self.decided.insert(s, Decided::ImplSkipped);
                            ev.push(FinEv::ImplicitlySkipped(s));
                            changed = true;
                        }
                    }
                }
            }
            if !changed {
                break;
            }
        }
        // watermark: end of the contiguous decided prefix
        let mut w = self.watermark;
        while self.decided.contains_key(&(w + 1)) {
            w += 1;
        }
        if w > self.watermark {
            self.watermark = w;
            self.slots = self.slots.split_off(&w);
            self.held.retain(|k, _| k.slot >= w);
            self.links.retain(|b, _| b.0 >= w);
        }
        ev
    }

    // ---------------------------------------------------------------- C07 ready parents

    pub fn certified_blocks(&self) -> BTreeSet<Bid> {
        let mut c: BTreeSet<Bid> = BTreeSet::new();
        c.insert(GENESIS);
        for m in self.ever.values() {
            if matches!(m.kind, CK::Notar | CK::NotarFallback | CK::FastFinal) {
                if let Some(h) = m.hash {
                    // a fast-final certificate certifies through finalization
                    c.insert((m.slot, h));
                }
            }
        }
        for (s, d) in &self.decided {
            if let Decided::Final(h) | Decided::ImplFinal(h) = d {
                c.insert((*s, *h));
            }
        }
        c
    }

    pub fn skipped(&self, slot: u64) -> bool {
        self.ever.contains_key(&CertKey { kind: CK::Skip, slot, nf_hash: None }) || matches!(self.decided.get(&slot), Some(Decided::ImplSkipped))
    }

    /// Ready(s) for a window start `s`.
    pub fn ready(&self, s: u64) -> BTreeSet<Bid> {
        let mut out = BTreeSet::new();
        if s == 0 {
            return out;
        }
        let cert = self.certified_blocks();
        // walk back from s-1 while slots are skipped
        let mut t = s - 1;
        loop {
            for b in cert.iter().filter(|b| b.0 == t) {
                out.insert(*b);
            }
            if t == 0 || !self.skipped(t) {
                break;
            }
            t -= 1;
        }
        out
    }

    // ---------------------------------------------------------------- steps

    fn snapshot_s2(&self, weak: bool) -> (BTreeSet<Bid>, BTreeSet<u64>) {
        let mut n = BTreeSet::new();
        let mut k = BTreeSet::new();
        for (&slot, _) in &self.slots {
            for h in self.blocks_voted(slot) {
                if self.s2n_holds_with(slot, &h, weak) {
                    n.insert((slot, h));
                }
            }
            if self.s2s_holds(slot) {
                k.insert(slot);
            }
        }
        (n, k)
    }

    fn finish_step(&mut self, mut exp: StepExpect, touched: BTreeSet<u64>, pre_watermark: u64) -> StepExpect {
        // certificates in hand -> finality -> pruning
        self.refresh_parent_certified(false);
        // evaluate safe-to predicates before pruning (allowed) ...
        let (n_before, k_before) = self.snapshot_s2(true);
        let fin = self.close_finality(&touched);
        exp.had_finalization = !fin.is_empty();
        exp.fin_events = fin;
        // ... and after it (required): a parent whose slot was pruned in this very step is no longer held
        self.refresh_parent_certified(true);
        let (n_after, k_after) = self.snapshot_s2(false);
        let (n_after_weak, _) = self.snapshot_s2(true);
        let n_before: BTreeSet<Bid> = n_before.union(&n_after_weak).copied().collect();
        let _ = pre_watermark;
        for b in n_before.union(&n_after) {
            if self.s2n_sent.contains(b) {
                continue;
            }
            exp.s2n_allowed.insert(*b);
            if n_after.contains(b) && b.0 >= self.watermark {
                exp.s2n_required.insert(*b);
            }
        }
        for s in k_before.union(&k_after) {
            if self.s2s_sent.contains(s) {
                continue;
            }
            exp.s2s_allowed.insert(*s);
            if k_after.contains(s) && *s >= self.watermark {
                exp.s2s_required.insert(*s);
            }
        }
        exp
    }

    /// Marks signals as sent (called by the harness with what the real pool actually raised,
    /// restricted to what the model allowed).
    pub fn note_sent(&mut self, s2n: &BTreeSet<Bid>, s2s: &BTreeSet<u64>) {
        self.s2n_sent.extend(s2n.iter().copied());
        self.s2s_sent.extend(s2s.iter().copied());
    }

    pub fn apply_vote(&mut self, v: &MVote) -> (VoteVerdict, StepExpect) {
        let verdict = self.judge_vote(v);
        let exp = StepExpect::default();
        if verdict != VoteVerdict::Ok {
            return (verdict, exp);
        }
        self.max_slot_seen = self.max_slot_seen.max(v.slot);
        let pre_w = self.watermark;
        let s = self.slots.entry(v.slot).or_default();
        let h = v.hash.unwrap_or([0; 32]);
        match v.kind {
            VK::Notar => {
                s.notar.insert(v.signer, h);
            }
            VK::NotarFallback => {
                s.nf.entry(v.signer).or_default().insert(h);
            }
            VK::Skip => {
                s.skip.insert(v.signer);
            }
            VK::SkipFallback => {
                s.sf.insert(v.signer);
            }
            VK::Final => {
                s.fin.insert(v.signer);
            }
        }
        let mut exp = exp;
        let mut touched = BTreeSet::new();
        for c in self.certs_due(v.slot) {
            self.held.insert(c.key(), c.clone());
            self.ever.insert(c.key(), c.clone());
            touched.insert(c.slot);
            exp.certs_created.push(c);
        }
        (verdict, self.finish_step(exp, touched, pre_w))
    }

    pub fn judge_cert(&self, c: &MCert) -> CertVerdict {
        if !self.in_bounds(c.slot) {
            return CertVerdict::OutOfBounds;
        }
        if self.held.contains_key(&c.key()) {
            return CertVerdict::Duplicate;
        }
        CertVerdict::Ok
    }

    pub fn apply_cert(&mut self, c: &MCert) -> (CertVerdict, StepExpect) {
        let verdict = self.judge_cert(c);
        let mut exp = StepExpect::default();
        if verdict != CertVerdict::Ok {
            return (verdict, exp);
        }
        self.max_slot_seen = self.max_slot_seen.max(c.slot);
        let pre_w = self.watermark;
        self.held.insert(c.key(), c.clone());
        self.ever.insert(c.key(), c.clone());
        exp.certs_created.push(c.clone());
        let touched: BTreeSet<u64> = [c.slot].into_iter().collect();
        (verdict, self.finish_step(exp, touched, pre_w))
    }

    pub fn apply_block(&mut self, b: Bid, p: Bid) -> StepExpect {
        let pre_w = self.watermark;
        self.max_slot_seen = self.max_slot_seen.max(b.0);
        if b.0 >= self.watermark {
            self.links.entry(b).or_insert(p);
        }
        self.registered.entry(b).or_insert(p);
        let touched: BTreeSet<u64> = [b.0].into_iter().collect();
        self.finish_step(StepExpect::default(), touched, pre_w)
    }

    // ---------------------------------------------------------------- C18 standstill inventory

    /// Certificates that prove the highest finalized slot (any sufficient set).
    pub fn final_proof_ok(&self, certs: &[(CK, u64, Option<H32>)]) -> bool {
        let s = self.highest_final;
        if s == 0 {
            return true;
        }
        let ff = certs.iter().any(|c| c.0 == CK::FastFinal && c.1 == s);
        let fin = certs.iter().any(|c| c.0 == CK::Final && c.1 == s);
        let notar = certs.iter().any(|c| c.0 == CK::Notar && c.1 == s);
        ff || (fin && notar)
    }

    /// Keys of all certificates held for slots after the highest finalized slot.
    pub fn later_certs(&self) -> BTreeSet<CertKey> {
        self.held.keys().filter(|k| k.slot > self.highest_final).cloned().collect()
    }

    /// Own accepted votes for slots after the highest finalized slot.
    pub fn own_later_votes(&self) -> BTreeSet<MVote> {
        let mut out = BTreeSet::new();
        for (&slot, s) in self.slots.range(self.highest_final + 1..) {
            let i = self.own;
            if let Some(h) = s.notar.get(&i) {
                out.insert(MVote { signer: i, kind: VK::Notar, slot, hash: Some(*h) });
            }
            for h in s.nf.get(&i).into_iter().flatten() {
                out.insert(MVote { signer: i, kind: VK::NotarFallback, slot, hash: Some(*h) });
            }
            if s.skip.contains(&i) {
                out.insert(MVote { signer: i, kind: VK::Skip, slot, hash: None });
            }
            if s.sf.contains(&i) {
                out.insert(MVote { signer: i, kind: VK::SkipFallback, slot, hash: None });
            }
            if s.fin.contains(&i) {
                out.insert(MVote { signer: i, kind: VK::Final, slot, hash: None });
            }
        }
        out
    }
}
