//! agv: runtime monitors for qkniep/alpenglow (see /verif/DESIGN.md).
#![allow(clippy::too_many_arguments, clippy::type_complexity)]

pub mod adversary;
pub mod cluster;
pub mod clusterrun;
pub mod common;
pub mod evidence;
pub mod hostile;
pub mod model;
pub mod net;
pub mod poolsim;
pub mod world;
pub mod wire;
pub mod props;
