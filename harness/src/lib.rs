//! agv: runtime monitors for qkniep/alpenglow (see /verif/DESIGN.md).
#![allow(clippy::too_many_arguments, clippy::type_complexity)]

pub mod common;
pub mod evidence;
pub mod net;
pub mod wire;
pub mod props;
