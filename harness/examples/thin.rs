//! Debug helper: one thin-margin execution, votes of the first slots after stabilisation.
use agv::clusterrun::execute;
use agv::common::mk_rng;
use agv::props::cluster_props::{base_cfg, thin_margin_cfg};

fn main() {
    let seed: u64 = std::env::args().nth(1).and_then(|s| s.parse().ok()).unwrap_or(1);
    let mut rng = mk_rng(seed, "thin-debug");
    let mut cfg = base_cfg(&mut rng, true, true, true);
    cfg.duration = std::time::Duration::from_secs(12);
    thin_margin_cfg(&mut rng, &mut cfg);
    println!("{}", cfg.describe());
    let rt = tokio::runtime::Builder::new_current_thread().enable_all().start_paused(true).build().unwrap();
    let out = rt.block_on(tokio::task::unconstrained(execute(&cfg, &mut rng)));
    for (t, from, v) in out.votes_sent.iter().filter(|x| x.2.slot <= 12) {
        println!("vote  {:>6}ms v{} {} s{} {}", t.as_millis(), from, v.kind.name(), v.slot, v.hash.map(|h| agv::common::hex(&h[..3])).unwrap_or_default());
    }
    println!("{:?}", out.samples.last());
}
