//! Debug helper: the stalled thorough configuration (n=11, two crashed, Byzantine TwoBlocks leader).
use std::time::Duration;
use agv::clusterrun::ByzLeader;
use agv::common::{make_epoch, mk_rng};
use agv::props::cluster_props::{base_cfg, progress_oracle, run_exec};

struct L;
impl log::Log for L {
    fn enabled(&self, m: &log::Metadata) -> bool {
        m.level() <= log::Level::Debug
    }
    fn log(&self, r: &log::Record) {
        let t = r.target();
        if (t.contains("repair") && r.level() <= log::Level::Debug) || (r.level() <= log::Level::Warn) {
            let msg = format!("{}", r.args());
            eprintln!("LOG {} {} {}", r.level(), t, msg.chars().take(220).collect::<String>());
        }
    }
    fn flush(&self) {}
}
static LOGGER: L = L;

fn main() {
    log::set_logger(&LOGGER).ok();
    log::set_max_level(log::LevelFilter::Debug);
    let seed: u64 = std::env::args().nth(1).and_then(|s| s.parse().ok()).unwrap_or(1);
    let mut rng = mk_rng(seed, "stall-debug");
    let mut cfg = base_cfg(&mut rng, true, false, false);
    cfg.ep = make_epoch(&mut rng, &[1u64; 11], "equal");
    cfg.byz = [7usize].into_iter().collect();
    cfg.byz_leader = ByzLeader::TwoBlocks;
    cfg.byz_votes = true;
    cfg.byz_certs = true;
    cfg.crashes = vec![(0, Duration::from_millis(5478)), (9, Duration::from_millis(2646))];
    cfg.t_stable = Duration::from_secs(6);
    cfg.delta = Duration::from_millis(100);
    cfg.diss = agv::cluster::DissKind::Trivial;
    cfg.tx_rate = 40;
    cfg.duration = Duration::from_secs(40);
    let out = run_exec(&cfg, &mut rng);
    let (f, info, judged) = progress_oracle(&cfg, &out);
    println!("byz modes {:?} judged {judged} info {info}", out.byz_modes);
    for x in f {
        println!("FINDING {} | {}", x.sig, x.detail);
    }
    println!("final {:?}", out.samples.last().map(|s| s.1.clone()));
    let stuck = out.samples.last().and_then(|s| s.1.values().min().copied()).unwrap_or(0);
    for (t, from, v) in out.votes_sent.iter().filter(|x| x.2.slot > stuck && x.2.slot <= stuck + 5) {
        println!("vote {:>6}ms v{} {} s{} {}", t.as_millis(), from, v.kind.name(), v.slot, v.hash.map(|h| agv::common::hex(&h[..3])).unwrap_or_default());
    }
    for v in out.byz_own_votes.iter().filter(|v| v.slot > stuck && v.slot <= stuck + 5) {
        println!("byzvote v{} {} s{} {}", v.signer, v.kind.name(), v.slot, v.hash.map(|h| agv::common::hex(&h[..3])).unwrap_or_default());
    }
    for (t, from, c) in out.certs_sent.iter().filter(|x| x.2.slot > stuck && x.2.slot <= stuck + 5) {
        println!("cert {:>6}ms v{} {:?} s{} {}", t.as_millis(), from, c.kind, c.slot, c.hash.map(|h| agv::common::hex(&h[..3])).unwrap_or_default());
    }
    for (b, p) in out.tree.iter().filter(|(b, _)| b.0 > stuck.saturating_sub(2) && b.0 <= stuck + 5) {
        println!("block {}:{} parent {}:{}", b.0, agv::common::hex(&b.1[..3]), p.0, agv::common::hex(&p.1[..3]));
    }
    println!("repair req {} resp {}", out.repair_requests, out.repair_responses);
    for (v, w) in &out.waiting_at_end {
        println!("waiting v{v}: {:?}", w.iter().map(|(c, p)| format!("{}:{} on {}:{}", c.0, agv::common::hex(&c.1[..3]), p.0, agv::common::hex(&p.1[..3]))).collect::<Vec<_>>());
    }
    for (v, h) in &out.held {
        println!("held v{v}: {:?}", h.iter().filter(|c| c.slot + 2 > stuck).map(|c| format!("{:?}@{}:{}", c.kind, c.slot, c.hash.map(|h| agv::common::hex(&h[..3])).unwrap_or_default())).collect::<Vec<_>>());
    }
}
