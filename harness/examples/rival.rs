//! Debug helper: one rival-split execution with a dump of what happened around the rival slot.
use agv::clusterrun::execute;
use agv::common::mk_rng;
use agv::props::cluster_props::{base_cfg, rival_cfg};

fn main() {
    let seed: u64 = std::env::args().nth(1).and_then(|s| s.parse().ok()).unwrap_or(1);
    let mut rng = mk_rng(seed, "rival-debug");
    let mut cfg = base_cfg(&mut rng, true, true, false);
    rival_cfg(&mut rng, &mut cfg);
    let rt = tokio::runtime::Builder::new_current_thread().enable_all().start_paused(true).build().unwrap();
    let out = rt.block_on(tokio::task::unconstrained(execute(&cfg, &mut rng)));
    let r = cfg.rival.clone().unwrap();
    let slot = 4 * r.z as u64;
    println!("{:?} stakes {:?} slot {slot}", r, cfg.ep.stakes);
    for (t, from, v) in out.votes_sent.iter().filter(|x| x.2.slot >= slot && x.2.slot <= slot + 4) {
        println!("vote  {:>6}ms v{} {} s{} {}", t.as_millis(), from, v.kind.name(), v.slot, v.hash.map(|h| agv::common::hex(&h[..3])).unwrap_or_default());
    }
    for (t, from, c) in out.certs_sent.iter().filter(|x| x.2.slot >= slot && x.2.slot <= slot + 4) {
        println!("certS {:>6}ms v{} {:?} s{} {}", t.as_millis(), from, c.kind, c.slot, c.hash.map(|h| agv::common::hex(&h[..3])).unwrap_or_default());
    }
    for (t, to, c) in out.certs_delivered.iter().filter(|x| x.2.slot == slot) {
        println!("certD {:>6}ms ->v{} {:?} s{} {}", t.as_millis(), to, c.kind, c.slot, c.hash.map(|h| agv::common::hex(&h[..3])).unwrap_or_default());
    }
    for (v, l) in &out.fin_logs {
        let near: Vec<String> = l.iter().map(|e| format!("{e:?}")).filter(|s| s.contains(&format!("({slot},")) || s.contains(&format!("({},", slot + 4))).map(|s| s.chars().take(60).collect()).collect();
        println!("fin v{v}: {near:?}");
    }
    for (b, par) in out.tree.iter().filter(|(b, _)| b.0 >= slot && b.0 <= slot + 8) {
        println!("block {}:{} parent {}:{}", b.0, agv::common::hex(&b.1[..3]), par.0, agv::common::hex(&par.1[..3]));
    }
    for p in &out.panics {
        println!("panic {} {}:{}", p.msg, p.file, p.line);
    }
    println!("dead {:?}", out.dead_tasks);
}
