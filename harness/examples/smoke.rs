use std::collections::BTreeSet;
use std::time::Duration;
use agv::cluster::*;
use agv::common::*;
fn main() {
    agv::evidence::install_panic_hook();
    let rt = tokio::runtime::Builder::new_current_thread().enable_all().start_paused(true).build().unwrap();
    rt.block_on(tokio::task::unconstrained(async {
        let mut rng = mk_rng(1, "smoke");
        let ep = make_epoch(&mut rng, &[1, 1, 1, 1, 1], "equal");
        let t0 = std::time::Instant::now();
        let cl = Cluster::new(ep, BTreeSet::new(), DissKind::Rotor);
        for step in 0..20 {
            tokio::time::sleep(Duration::from_millis(1000)).await;
            let mut f = Vec::new();
            for v in cl.correct() { f.push(cl.finalized_slot(v).await); }
            println!("t={}s finalized={:?} net={:?} real={:.1}s panics={}", step + 1, f, cl.net.stats(), t0.elapsed().as_secs_f64(), agv::evidence::panics_len());
        }
        let l = cl.log.lock().unwrap();
        println!("votes sent {} certs sent {} shreds {} maxdg {}", l.votes_sent.len(), l.certs_sent.len(), l.shreds_sent, l.max_datagram);
        for p in agv::evidence::take_panics().iter().take(5) { println!("PANIC {} {}:{}", p.msg, p.file, p.line); }
        cl.stop();
    }));
}
