#!/bin/bash
# usage: seeded_eval_scratch.sh <scratch-id-dir> <check ids...>
# Like seeded_eval.sh, but never touches /repo: the checks run from a scratch copy of /verif (/tmp/v2) whose
# harness depends on a scratch worktree of /repo (/tmp/wt). Used while a background run is using /repo.
set -u
D=$1; shift
OUT=$D/_out
cd $D || exit 2
git checkout -q -- . ; git clean -fdq -e _out -e target
export CARGO_NET_OFFLINE=true CARGO_TARGET_DIR=$D/target
TEST=$(awk '/^\+.*#\[(tokio::)?test/ {f=1; next} f && /fn [a-z0-9_]+/ {match($0,/fn [a-z0-9_]+/); print substr($0,RSTART+3,RLENGTH-3); f=0}' $OUT/demo.diff | head -1)
echo "demo test: $TEST"
git apply $OUT/demo.diff || { echo "DEMO-APPLY-FAILED"; exit 2; }
echo "demo without patch: $(cargo nextest run --offline --no-fail-fast $TEST 2>&1 | grep -E "Summary|tests run" | tail -1)"
git apply $OUT/patch.diff || { echo "PATCH-APPLY-FAILED"; exit 2; }
echo "demo with patch:    $(cargo nextest run --offline --no-fail-fast $TEST 2>&1 | grep -E "Summary|tests run" | tail -1)"
git checkout -q -- . ; git clean -fdq -e _out -e target
git apply $OUT/patch.diff
echo "suite with patch:   $(cargo nextest run --workspace --offline --no-fail-fast 2>&1 | grep -E "Summary" | tail -1)"
git checkout -q -- . ; git clean -fdq -e _out -e target
unset CARGO_TARGET_DIR
[ -d /tmp/wt ] || git -C /repo worktree add --detach /tmp/wt HEAD >/dev/null 2>&1
rsync -a --exclude target --exclude target-asan --exclude replays --exclude .git --exclude evidence /verif/ /tmp/v2/ && sed -i 's#path = "/repo"#path = "/tmp/wt"#' /tmp/v2/harness/Cargo.toml
cd /tmp/wt && git checkout -q -- . && git apply $OUT/patch.diff || { echo PATCH-ON-SCRATCH-FAILED; exit 2; }
cd /tmp/v2
export AGV_REPO_PREFIX=/tmp/wt/
for c in "$@"; do
  T0=$(date +%s)
  ./check $c --tier quick > /tmp/scratch_$c.log 2>&1; RC=$?
  echo "check $c exit=$RC ($(( $(date +%s) - T0 ))s): $(grep -m3 'signature:' /tmp/scratch_$c.log | sed 's/  signature: //' | tr '\n' '|')"
done
cd /tmp/wt && git checkout -q -- .
